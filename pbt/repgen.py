"""Repetition generators, driver spec strings and the reference enumeration (the model for C11 and users)."""
import math

from hypothesis import strategies as st

from common import fl

# default coordinate strategy: multiples of 1/8 of either sign incl. zero
grid8 = st.integers(-80, 80).map(lambda k: k / 8.0)


@st.composite
def repetition(draw, coord=grid8, allow_zero=False, counts=None, max_explicit=8, kinds=None):
    kinds = kinds or ["rect", "regular", "explicit", "explicitx", "explicity"]
    k = draw(st.sampled_from(kinds))
    cnt = counts if counts is not None else st.sampled_from(([0] if allow_zero else []) + [1, 1, 2, 2, 3, 7])
    if k == "rect":
        return {"type": "rect", "cols": draw(cnt), "rows": draw(cnt), "spacing": [draw(coord), draw(coord)]}
    if k == "regular":
        return {"type": "regular", "cols": draw(cnt), "rows": draw(cnt), "v1": [draw(coord), draw(coord)],
                "v2": [draw(coord), draw(coord)]}
    if k == "explicit":
        n = draw(st.integers(0 if allow_zero else 1, max_explicit))
        offs = []
        for _ in range(n):
            m = draw(st.integers(0, 9))
            if m == 0:
                offs.append([0.0, 0.0])
            elif m == 1 and offs:
                offs.append(list(draw(st.sampled_from(offs))))
            else:
                offs.append([draw(coord), draw(coord)])
        return {"type": "explicit", "offsets": offs}
    n = draw(st.integers(0 if allow_zero else 1, max_explicit))
    cs = []
    for _ in range(n):
        m = draw(st.integers(0, 9))
        if m == 0:
            cs.append(0.0)
        elif m == 1 and cs:
            cs.append(draw(st.sampled_from(cs)))
        else:
            cs.append(draw(coord))
    return {"type": k, "coords": cs}


def spec(rep):
    if rep is None:
        return "none"
    t = rep["type"]
    if t == "rect":
        return "rect %d %d %s %s" % (rep["cols"], rep["rows"], fl(rep["spacing"][0]), fl(rep["spacing"][1]))
    if t == "regular":
        return "regular %d %d %s %s %s %s" % (rep["cols"], rep["rows"], fl(rep["v1"][0]), fl(rep["v1"][1]),
                                             fl(rep["v2"][0]), fl(rep["v2"][1]))
    if t == "explicit":
        return "explicit %d %s" % (len(rep["offsets"]), " ".join(fl(c) for o in rep["offsets"] for c in o))
    return "%s %d %s" % (t, len(rep["coords"]), " ".join(fl(c) for c in rep["coords"]))


def offsets(rep):
    """reference enumeration: the list of displacement vectors (zero first for explicit kinds)."""
    if rep is None:
        return [(0.0, 0.0)]
    t = rep["type"]
    if t == "rect":
        sx, sy = rep["spacing"]
        return [(i * sx, j * sy) for i in range(rep["cols"]) for j in range(rep["rows"])]
    if t == "regular":
        (ax, ay), (bx, by) = rep["v1"], rep["v2"]
        return [(i * ax + j * bx, i * ay + j * by) for i in range(rep["cols"]) for j in range(rep["rows"])]
    if t == "explicit":
        return [(0.0, 0.0)] + [tuple(o) for o in rep["offsets"]]
    if t == "explicitx":
        return [(0.0, 0.0)] + [(c, 0.0) for c in rep["coords"]]
    if t == "explicity":
        return [(0.0, 0.0)] + [(0.0, c) for c in rep["coords"]]
    raise ValueError(t)


def count(rep):
    return len(offsets(rep))


def from_dump(d):
    """driver dump -> same dict shape as the generators (None for no repetition)"""
    return d


def transform_offsets(offs, mag, xrefl, rot):
    out = []
    ca, sa = math.cos(rot), math.sin(rot)
    for x, y in offs:
        x, y = x * mag, y * mag
        if xrefl:
            y = -y
        out.append((x * ca - y * sa, x * sa + y * ca))
    return out
