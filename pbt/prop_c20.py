"""C20 - containers, property lists and sorting behave as their abstract models."""
from hypothesis import strategies as st

from common import Violation, hx

LEVEL = "exploration"
RULE = ("operation histories (<= 60 ops quick, <= 150 thorough) over Map<uint64_t>, Set<uint64_t>, TagMap, StyleMap with keys "
        "crafted (FNV-1a reimplemented in Python) so that their hashes share low bits: clusters that collide at every "
        "capacity 8..1024 and clusters that start in the last slots and wrap around the table end; bulk fill/drain ops "
        "drive the table through every growth step to capacity 2048; after every op the return value, count and a full "
        "iteration are compared with a Python dict/set model, and every crafted key is looked up after each insertion/removal. Property lists: histories over set_property (5 overloads, "
        "create_new both ways), set_gds_property, get/remove (all / first), copy, clear vs an ordered multimap model. "
        "Sorting: sort/intro_sort(max_depth 0..3)/heap_sort/insertion_sort on arrays of (key,id) of length 0..300 in "
        "sorted/reversed/constant/organ-pipe/few-distinct/random order under 4 strict weak orders; oracle = ordered "
        "permutation of the input. Non-trivial: a deletion inside a collision cluster of >= 3 keys, or a removal that "
        "empties a property list / removes head or tail, or an array longer than 16 that takes the heap path "
        "(max_depth exhausted) or the quicksort path; distinct by case hash")
ASSUMPTIONS = ["Map::resize is only called with capacities above 2*count (it is documented as internal)",
               "UBSan reports of kinds null/bounds/shift/overflow fail the case"]

MASK = (1 << 64) - 1
FNV_OFF = 0xcbf29ce484222325
FNV_PRIME = 0x100000001b3


def fnv_str(s):
    h = FNV_OFF
    for c in s.encode():
        h ^= c
        h = (h * FNV_PRIME) & MASK
    return h


def fnv_u64(v):
    h = FNV_OFF
    for i in range(8):
        h ^= (v >> (8 * i)) & 0xFF
        h = (h * FNV_PRIME) & MASK
    return h


TARGET_LOW = [1023, 0, 1, 7, 8, 15, 1016, 511, 512, 63]


def _pools():
    spool = {t: [] for t in TARGET_LOW}
    ipool = {t: [] for t in TARGET_LOW}
    i = 0
    need = 6
    while any(len(v) < need for v in spool.values()) and i < 400000:
        k = "k%d" % i
        t = fnv_str(k) & 1023
        if t in spool and len(spool[t]) < need:
            spool[t].append(k)
        i += 1
    i = 1
    while any(len(v) < need for v in ipool.values()) and i < 400000:
        v = (i * 0x9E3779B97F4A7C15) & MASK if i % 2 else i
        t = fnv_u64(v) & 1023
        if t in ipool and len(ipool[t]) < need and v != 0:
            ipool[t].append(v)
        i += 1
    skeys = [k for t in TARGET_LOW for k in spool[t]]
    ikeys = [k for t in TARGET_LOW for k in ipool[t]]
    return skeys, ikeys


SKEYS, IKEYS = _pools()
BULK_S = ["bulk%d" % i for i in range(1200)]
BULK_I = [(i * 2654435761 + 12345) & MASK for i in range(1, 1201)]


def ops_strategy(kind, maxops):
    nkeys = len(SKEYS)
    # mostly the first three hash classes (low bits 1023, 0, 1: neighbours that wrap around the table end at every
    # capacity), sometimes any crafted key
    ki = st.one_of(st.integers(0, 17), st.integers(0, 17), st.integers(0, nkeys - 1))
    # a cluster-focused index: same hash class = consecutive blocks of 6
    val = st.integers(0, 2 ** 64 - 1) if kind != "style" else st.integers(0, 5)
    single = st.one_of(
        st.tuples(st.just("set"), ki, val),
        st.tuples(st.just("set"), ki, val),
        st.tuples(st.just("del"), ki),
        st.tuples(st.just("del"), ki),
        st.tuples(st.just("get"), ki),
        st.tuples(st.just("iter")),
        st.tuples(st.just("copy")),
        st.tuples(st.just("clear")),
        st.tuples(st.just("fill"), st.integers(0, 600), st.sampled_from([3, 5, 9, 17, 33, 65, 129, 257, 513, 600])),
        st.tuples(st.just("drain"), st.integers(0, 600), st.sampled_from([3, 5, 9, 17, 33, 65, 129, 257, 513, 600])),
        st.tuples(st.just("resize"), st.integers(0, 3)),
        st.tuples(st.just("setclass"), st.integers(0, len(TARGET_LOW) - 1), st.integers(2, 6)),
        st.tuples(st.just("setclass"), st.integers(0, 2), st.integers(2, 6)),
    )
    if kind == "tagmap":
        single = st.one_of(single, st.tuples(st.just("set_self"), ki))
    return st.lists(single, min_size=1, max_size=maxops)


def check_container(ctx, case):
    kind = case["kind"]
    ops = case["ops"]
    strkeys = kind == "map"
    keys = SKEYS if strkeys else IKEYS
    bulk = BULK_S if strkeys else BULK_I

    def kt(k):
        return hx(k) if strkeys else str(k)

    def vt(v):
        if kind == "style":
            return hx("style%d" % v)
        return str(v)

    lines = []
    model = {}
    expect = []  # (kind, data) per output line
    sets = kind == "set"
    cur = "a"
    copies = 0
    nontrivial = False
    labels = set()

    def cluster_size(k):
        h = (fnv_str(k) if strkeys else fnv_u64(k)) & 1023
        return sum(1 for kk in model if ((fnv_str(kk) if strkeys else fnv_u64(kk)) & 1023) == h)

    def emit_iter():
        lines.append("cont %s %s iter" % (kind, cur))
        expect.append(("iter", dict(model)))

    for op in ops:
        name = op[0]
        if name == "set":
            k = keys[op[1]]
            v = op[2]
            if sets:
                lines.append("cont set %s add %s" % (cur, kt(k)))
                model[k] = True
            else:
                if kind == "tagmap" and k == v:
                    v = (v + 1) & MASK
                lines.append("cont %s %s set %s %s" % (kind, cur, kt(k), vt(v)))
                model[k] = v
            expect.append(("count", len(model)))
        elif name == "setclass":
            for k in keys[6 * op[1]:6 * op[1] + op[2]]:
                if sets:
                    lines.append("cont set %s add %s" % (cur, kt(k)))
                    model[k] = True
                else:
                    v = 77 if kind != "style" else 2
                    lines.append("cont %s %s set %s %s" % (kind, cur, kt(k), vt(v)))
                    model[k] = v
                expect.append(("count", len(model)))
        elif name == "set_self":
            k = keys[op[1]]
            lines.append("cont tagmap %s set %s %s" % (cur, k, k))
            model.pop(k, None)
            expect.append(None)  # set() through del prints the set-format line; count checked below
            expect[-1] = ("count", len(model))
            labels.add("tagmap_key_eq_value")
        elif name == "del":
            k = keys[op[1]]
            if k in model and cluster_size(k) >= 3:
                nontrivial = True
                labels.add("delete_in_cluster")
                if ((fnv_str(k) if strkeys else fnv_u64(k)) & 1023) in (1023, 1016, 7, 15, 63, 511):
                    labels.add("delete_in_wrapping_cluster")
            lines.append("cont %s %s del %s" % (kind, cur, kt(k)))
            r = k in model
            model.pop(k, None)
            expect.append(("ret_count", r, len(model)))
        elif name == "get":
            k = keys[op[1]]
            if sets:
                lines.append("cont set %s has %s" % (cur, kt(k)))
                expect.append(("ret", k in model))
            else:
                lines.append("cont %s %s get %s" % (kind, cur, kt(k)))
                expect.append(("get", k, model.get(k), k in model))
        elif name == "iter":
            emit_iter()
        elif name == "copy":
            copies += 1
            new = "c%d" % copies
            lines.append("cont %s %s copy %s" % (kind, cur, new))
            # continue on the copy; the source must be unaffected (checked by a final iter on it)
            lines.append("cont %s %s iter" % (kind, cur))
            expect.append(("iter", dict(model)))
            cur = new
            labels.add("copy")
        elif name == "clear":
            lines.append("cont %s %s clear" % (kind, cur))
            model.clear()
            emit_iter()
        elif name == "fill":
            for k in bulk[op[1]:op[1] + op[2]]:
                if sets:
                    lines.append("cont set %s add %s" % (cur, kt(k)))
                    model[k] = True
                else:
                    v = (fnv_str(str(k)) & 0xFFFF) + 1 if kind != "style" else 1
                    if kind == "tagmap" and v == k:
                        v += 1
                    lines.append("cont %s %s set %s %s" % (kind, cur, kt(k), vt(v)))
                    model[k] = v
                expect.append(("count", len(model)))
            labels.add("fill")
        elif name == "drain":
            for k in bulk[op[1]:op[1] + op[2]]:
                lines.append("cont %s %s del %s" % (kind, cur, kt(k)))
                r = k in model
                model.pop(k, None)
                expect.append(("ret_count", r, len(model)))
            labels.add("drain")
        elif name == "resize":
            if kind == "style":
                continue
            cap = max(8, 2 * len(model) + 1 + op[1] * 7)
            lines.append("cont %s %s resize %d" % (kind, cur, cap))
            labels.add("resize")
        if len(model) <= 48 and name in ("set", "del", "set_self", "resize", "setclass"):
            emit_iter()
        if name in ("set", "del", "set_self", "setclass"):
            # look-up (not only iteration) of every crafted key after an insertion or removal: an entry that a removal
            # leaves stranded behind a gap is still iterated and counted, only the probe sequence no longer finds it
            for kk in keys[:18] + ([keys[op[1]]] if name != "setclass" else []):
                if sets:
                    lines.append("cont set %s has %s" % (cur, kt(kk)))
                    expect.append(("ret", kk in model))
                else:
                    lines.append("cont %s %s get %s" % (kind, cur, kt(kk)))
                    expect.append(("get", kk, model.get(kk), kk in model))
            labels.add("lookup_after_update")
    emit_iter()
    outs = ctx.run(lines, case)
    if len(outs) != len(expect):
        raise Violation("driver answered %d lines, expected %d" % (len(outs), len(expect)), case, script=lines)
    maxcap = 0
    for n, (o, e) in enumerate(zip(outs, expect)):
        maxcap = max(maxcap, o.get("capacity", 0))
        if e[0] == "count":
            if o["count"] != e[1]:
                raise Violation("%s: count %d after set, model %d (output %d)" % (kind, o["count"], e[1], n), case, e[1], o, lines)
        elif e[0] == "ret_count":
            if o["ret"] != e[1] or o["count"] != e[2]:
                raise Violation("%s: del returned %s count %d, model %s/%d" % (kind, o["ret"], o["count"], e[1], e[2]), case, e, o, lines)
        elif e[0] == "ret":
            if o["ret"] != e[1]:
                raise Violation("%s: has_value %s, model %s" % (kind, o["ret"], e[1]), case, e, o, lines)
        elif e[0] == "get":
            _, k, v, has = e
            if kind == "style":
                want = None if v is None else ("style%d" % v).encode().hex()
                if o["ret"] != want:
                    raise Violation("style: get(%s) = %s, model %s" % (k, o["ret"], want), case, want, o, lines)
            else:
                want = v if v is not None else (k if kind == "tagmap" else 0)
                if o["ret"] != want or o["has"] != has:
                    raise Violation("%s: get(%s) = %s has=%s, model %s has=%s" % (kind, k, o["ret"], o["has"], want, has), case, e, o, lines)
        elif e[0] == "iter":
            m = e[1]
            if o["count"] != len(m):
                raise Violation("%s: count field %d, model %d" % (kind, o["count"], len(m)), case, len(m), o["count"], lines)
            if kind == "map":
                got = {bytes.fromhex(k).decode(): v for k, v in o["items"]}
                if len(got) != len(o["items"]) or got != m:
                    raise Violation("map: iteration differs from model (%d vs %d entries)" % (len(o["items"]), len(m)), case, sorted(m.items()), o["items"], lines)
                if sorted(o["to_array"]) != sorted(m.values()):
                    raise Violation("map: to_array differs from model", case, sorted(m.values()), o["to_array"], lines)
            elif kind == "set":
                if sorted(o["items"]) != sorted(m.keys()) or sorted(o["to_array"]) != sorted(m.keys()):
                    raise Violation("set: iteration differs from model", case, sorted(m.keys()), o["items"], lines)
            elif kind == "tagmap":
                got = {k: v for k, v in o["items"]}
                if len(got) != len(o["items"]) or got != m:
                    raise Violation("tagmap: iteration differs from model", case, sorted(m.items()), o["items"], lines)
            else:
                got = {k: bytes.fromhex(v).decode() for k, v in o["items"]}
                want = {k: "style%d" % v for k, v in m.items()}
                if len(got) != len(o["items"]) or got != want:
                    raise Violation("style: iteration differs from model", case, sorted(want.items()), o["items"], lines)
    labels.add("maxcap_%d" % maxcap)
    ctx.stats.note(case, nontrivial, [kind] + sorted(labels))


# ------------------------------------------------------------------ property lists
NAMES = ["a", "b", "S_GDS_PROPERTY", "name with space", "n" * 40, "c"]


def prop_ops(maxops):
    ni = st.integers(0, len(NAMES) - 1)
    sval = st.sampled_from(["", "x", "hello", "odd", "even", "z" * 33])
    bval = st.binary(max_size=6)
    single = st.one_of(
        st.tuples(st.just("set_u"), ni, st.integers(0, 2 ** 64 - 1), st.booleans()),
        st.tuples(st.just("set_i"), ni, st.integers(-2 ** 63, 2 ** 63 - 1), st.booleans()),
        st.tuples(st.just("set_r"), ni, st.floats(allow_nan=False, allow_infinity=False), st.booleans()),
        st.tuples(st.just("set_s"), ni, sval, st.booleans()),
        st.tuples(st.just("set_b"), ni, bval.map(lambda b: b.hex()), st.booleans()),
        st.tuples(st.just("gds"), st.integers(0, 3), sval),
        st.tuples(st.just("gds"), st.sampled_from([0, 1, 65535]), sval),
        st.tuples(st.just("remove"), ni, st.booleans()),
        st.tuples(st.just("remove"), ni, st.booleans()),
        st.tuples(st.just("remove_gds"), st.integers(0, 3)),
        st.tuples(st.just("get"), ni),
        st.tuples(st.just("get_gds"), st.integers(0, 3)),
        st.tuples(st.just("copy")),
        st.tuples(st.just("clear")),
    )
    return st.lists(single, min_size=1, max_size=maxops)


def is_gds(p):
    name, vals = p
    return name == "S_GDS_PROPERTY" and len(vals) >= 2 and vals[0][0] == "u" and vals[1][0] == "s"


def check_props(ctx, case):
    ops = case["ops"]
    lines = ["poly new p0 0 0 0", "poly new p1 0 0 0"]
    model = []  # head first: [name, [values head first]]
    expect = []
    nontrivial = False
    labels = set()
    cur = "p0"
    other = "p1"

    def dump():
        lines.append("prop poly %s dump" % cur)
        expect.append(("dump", [[n, list(v)] for n, v in model]))

    for op in ops:
        name = op[0]
        if name.startswith("set_"):
            pname = NAMES[op[1]]
            create_new = op[3]
            if name == "set_u":
                val = ["u", op[2]]
                arg = str(op[2])
            elif name == "set_i":
                val = ["i", op[2]]
                arg = str(op[2])
            elif name == "set_r":
                val = ["r", op[2]]
                arg = float(op[2]).hex()
            elif name == "set_s":
                val = ["s", op[2].encode().hex()]
                arg = hx(op[2])
            else:
                val = ["s", op[2]]
                arg = op[2] if op[2] else "-"
            lines.append("prop poly %s %s %s %s %d" % (cur, name, hx(pname), arg, 1 if create_new else 0))
            target = None
            if not create_new:
                for p in model:
                    if p[0] == pname:
                        target = p
                        break
            if target is not None:
                target[1].insert(0, val)
                labels.add("append_value_to_existing")
            else:
                model.insert(0, [pname, [val]])
        elif name == "gds":
            attr, sval = op[1], op[2]
            lines.append("prop poly %s gds %d %s" % (cur, attr, hx(sval)))
            found = None
            for p in model:
                if is_gds(p) and p[1][0][1] == attr:
                    found = p
                    break
            enc = (sval.encode() + b"\0").hex()
            if found is not None:
                found[1][1] = ["s", enc]
                labels.add("gds_overwrite")
            else:
                model.insert(0, ["S_GDS_PROPERTY", [["u", attr], ["s", enc]]])
        elif name == "remove":
            pname, allocc = NAMES[op[1]], op[2]
            lines.append("prop poly %s remove %s %d" % (cur, hx(pname), 1 if allocc else 0))
            idx = [i for i, p in enumerate(model) if p[0] == pname]
            if not allocc:
                idx = idx[:1]
            if idx:
                if len(idx) == len(model):
                    nontrivial = True
                    labels.add("remove_empties_list")
                if 0 in idx:
                    nontrivial = True
                    labels.add("remove_head")
                if len(model) - 1 in idx:
                    nontrivial = True
                    labels.add("remove_tail")
                if len(idx) > 1:
                    labels.add("remove_multiple")
            model[:] = [p for i, p in enumerate(model) if i not in idx]
            expect.append(("removed", len(idx)))
        elif name == "remove_gds":
            attr = op[1]
            lines.append("prop poly %s remove_gds %d" % (cur, attr))
            idx = [i for i, p in enumerate(model) if is_gds(p) and p[1][0][1] == attr][:1]
            if idx:
                if len(model) == 1:
                    nontrivial = True
                    labels.add("remove_empties_list")
                if idx[0] == 0:
                    nontrivial = True
                    labels.add("remove_head")
                if idx[0] == len(model) - 1:
                    nontrivial = True
                    labels.add("remove_tail")
            model[:] = [p for i, p in enumerate(model) if i not in idx]
            expect.append(("removed", bool(idx)))
        elif name == "get":
            pname = NAMES[op[1]]
            lines.append("prop poly %s get %s" % (cur, hx(pname)))
            v = None
            for p in model:
                if p[0] == pname:
                    v = list(p[1])
                    break
            expect.append(("get", v))
        elif name == "get_gds":
            attr = op[1]
            lines.append("prop poly %s get_gds %d" % (cur, attr))
            v = None
            for p in model:
                if is_gds(p) and p[1][0][1] == attr:
                    v = list(p[1][1:])
                    break
            expect.append(("get", v))
        elif name == "copy":
            lines.append("prop poly %s copy poly %s" % (cur, other))
            # source stays as it was; continue on the copy and check the source at the end of this step
            lines.append("prop poly %s dump" % cur)
            expect.append(("dump", [[n, list(v)] for n, v in model]))
            model = [[n, list(v)] for n, v in model]
            cur, other = other, cur
            labels.add("copy")
        elif name == "clear":
            lines.append("prop poly %s clear" % cur)
            model = []
        dump()
    outs = ctx.run(lines, case)
    if len(outs) != len(expect):
        raise Violation("driver answered %d lines, expected %d" % (len(outs), len(expect)), case, script=lines)

    def norm_vals(vs):
        out = []
        for t, v in vs:
            out.append([t, v])
        return out

    for o, e in zip(outs, expect):
        if e[0] == "removed":
            if o["removed"] != e[1]:
                raise Violation("remove returned %s, model %s" % (o["removed"], e[1]), case, e[1], o, lines)
        elif e[0] == "get":
            got = None if o["value"] is None else norm_vals(o["value"][0]["values"])
            if got != e[1]:
                raise Violation("get returned %s, model %s" % (got, e[1]), case, e[1], got, lines)
        else:
            got = [[bytes.fromhex(p["name"]).decode(), norm_vals(p["values"])] for p in o["props"]]
            if got != e[1]:
                raise Violation("property list differs from the ordered multimap model", case, e[1], got, lines)
    ctx.stats.note(case, nontrivial, ["props"] + sorted(labels))


# ------------------------------------------------------------------ sort
@st.composite
def sort_case(draw):
    algo = draw(st.sampled_from(["sort", "sort", "intro", "intro", "heap", "insertion", "default"]))
    cmp = draw(st.sampled_from(["lt", "gt", "abs", "mod"]))
    md = draw(st.integers(0, 3))
    n = draw(st.sampled_from([0, 1, 2, 3, 15, 16, 17, 18, 31, 32, 33, 64, 100, 257, 300]) | st.integers(0, 300))
    shape = draw(st.sampled_from(["random", "sorted", "reversed", "constant", "organ", "few", "sawtooth"]))
    if shape == "random":
        keys = draw(st.lists(st.integers(-1000, 1000), min_size=n, max_size=n))
    elif shape == "sorted":
        keys = list(range(n))
    elif shape == "reversed":
        keys = list(range(n, 0, -1))
    elif shape == "constant":
        keys = [draw(st.integers(-5, 5))] * n
    elif shape == "organ":
        keys = list(range(n // 2)) + list(range(n - n // 2, 0, -1))
    elif shape == "few":
        keys = draw(st.lists(st.integers(-2, 2), min_size=n, max_size=n))
    else:
        p = draw(st.integers(2, 9))
        keys = [i % p for i in range(n)]
    return {"algo": algo, "cmp": cmp, "max_depth": md, "keys": keys, "shape": shape}


def cmp_fn(name):
    if name == "lt":
        return lambda a, b: a < b
    if name == "gt":
        return lambda a, b: a > b
    if name == "abs":
        return lambda a, b: abs(a) < abs(b)
    return lambda a, b: a % 7 < b % 7


def check_sort(ctx, case):
    keys = case["keys"]
    n = len(keys)
    lines = ["cont sort %s %s %d %d %s" % (case["algo"], case["cmp"], case["max_depth"], n, " ".join(map(str, keys)))]
    outs = ctx.run(lines, case)
    got = outs[0]["sorted"]
    if case["algo"] == "default":
        if [g[0] for g in got] != sorted(keys):
            raise Violation("sort(T*,n) did not return the sorted array", case, sorted(keys), got, lines)
    else:
        less = cmp_fn(case["cmp"])
        ids = sorted(g[1] for g in got)
        if ids != list(range(n)) or any(keys[g[1]] != g[0] for g in got):
            raise Violation("sorted output is not a permutation of the input", case, None, got, lines)
        for a, b in zip(got, got[1:]):
            if less(b[0], a[0]):
                raise Violation("adjacent pair out of order under %s: %s before %s" % (case["cmp"], a, b), case, None, got, lines)
    regime = "insertion" if n <= 16 else ("heap" if case["algo"] == "heap" or (case["algo"] == "intro" and case["max_depth"] == 0) else
                                         "quick")
    nontrivial = n > 16 and case["algo"] in ("sort", "intro", "heap")
    ctx.stats.note(case, nontrivial, ["sort", "sort_" + case["algo"], "regime_" + regime, "shape_" + case["shape"]])


# ------------------------------------------------------------------ arrays
def array_ops():
    v = st.integers(0, 50)
    return st.lists(st.one_of(st.tuples(st.just("a"), v), st.tuples(st.just("i"), st.integers(0, 40), v),
                              st.tuples(st.just("r"), st.integers(0, 40)), st.tuples(st.just("u"), st.integers(0, 40)),
                              st.tuples(st.just("x"), st.lists(v, max_size=9)), st.tuples(st.just("c")),
                              st.tuples(st.just("ri"), v)), max_size=40)


def check_array(ctx, case):
    ops = case["ops"]
    model = []
    toks = []
    n = 0
    for op in ops:
        if op[0] == "a":
            model.append(op[1])
            toks.append("a %d" % op[1])
        elif op[0] == "i":
            idx = op[1]
            if idx >= len(model):
                model.append(op[2])
            else:
                model.insert(idx, op[2])
            toks.append("i %d %d" % (idx, op[2]))
        elif op[0] == "r":
            if op[1] >= len(model):
                continue
            model.pop(op[1])
            toks.append("r %d" % op[1])
        elif op[0] == "u":
            if op[1] >= len(model):
                continue
            model[op[1]] = model[-1]
            model.pop()
            toks.append("u %d" % op[1])
        elif op[0] == "x":
            model.extend(op[1])
            toks.append("x %d %s" % (len(op[1]), " ".join(map(str, op[1]))))
        elif op[0] == "c":
            toks.append("c")
        elif op[0] == "ri":
            if op[1] in model:
                model.remove(op[1])
            toks.append("ri %d" % op[1])
        n += 1
    lines = ["cont array %d %s" % (n, " ".join(toks))]
    outs = ctx.run(lines, case)
    if outs[0]["items"] != model:
        raise Violation("Array content differs from list model", case, model, outs[0]["items"], lines)
    ctx.stats.note(case, len(ops) >= 5, ["array"])


def wrap(kind, ops):
    return {"kind": kind, "ops": [list(o) for o in ops]}


def run_worker(ctx):
    q = ctx.tier == "quick"
    maxops = 60 if q else 150
    vs = []
    plan = [
        ("map", check_container, ops_strategy("map", maxops).map(lambda o: wrap("map", o)), 4000 if q else 40000),
        ("set", check_container, ops_strategy("set", maxops).map(lambda o: wrap("set", o)), 4000 if q else 40000),
        ("tagmap", check_container, ops_strategy("tagmap", maxops).map(lambda o: wrap("tagmap", o)), 4000 if q else 40000),
        ("style", check_container, ops_strategy("style", maxops).map(lambda o: wrap("style", o)), 3000 if q else 30000),
        ("props", check_props, prop_ops(maxops).map(lambda o: wrap("props", o)), 8000 if q else 80000),
        ("sort", check_sort, sort_case(), 30000 if q else 400000),
        ("array", check_array, array_ops().map(lambda o: wrap("array", o)), 3000 if q else 30000),
    ]
    for name, fn, strat, total in plan:
        v = ctx.hypothesis(fn, strat, ctx.share(total), name)
        if v:
            vs.append(v)
    return vs


def replay(ctx, test, case, ignore_known=False):
    kind = case.get("kind")
    if kind in ("map", "set", "tagmap", "style"):
        return check_container(ctx, case)
    if kind == "props":
        return check_props(ctx, case)
    if kind == "array":
        return check_array(ctx, case)
    return check_sort(ctx, case)
