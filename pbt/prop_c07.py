"""C07 - FlexPath outlines are the region swept by width and offset along the spine."""
import math
import os

from hypothesis import strategies as st

import pathmodel as pm
from common import Violation, fl, hx

LEVEL = "exploration"
RULE = ("(A) polyline paths: 3-7 spine points with turning angles from {0, +-20, +-45, +-90, +-120, +-150 degrees}, segment "
        "lengths >= the width and >= 1.3 x the length the two neighbouring joints consume, 1-3 elements with constant or "
        "per-call tapering widths and offsets, joins Natural/Miter/Bevel/Round/Smooth/Function, ends Flush/Round/HalfWidth/"
        "Extended(+-)/Smooth/Function, bends None/Circular/Function with radii that clearly fit or clearly do not; built by "
        "1-3 segment/horizontal/vertical calls, relative or absolute. (B) smooth paths: segment + turn/arc + segment "
        "sequences (tangent continuous) with constant or tapering width/offset. (C) arbitrary call histories over all 13 "
        "construction calls incl. commands with width/offset targets. Oracle: (1) after every call one half-width/offset "
        "entry per spine point for every element, first entry unchanged, last equal to the requested target, linear ramp in "
        "between; the spine equals a Curve built by the same calls; (2) the element's centre line is rebuilt from the call "
        "history (displaced segments intersected, fitted bends replaced by arcs of the requested radius) and the outline "
        "polygon is probed at decidable samples: every point of the perpendicular sweep of a centre piece (lateral distance "
        "<= half-width - band) and of a round cap's disc must be inside, every point farther than the join's reach + band "
        "from the centre line or beyond a cap plane must be outside, points on the outer bisector of every joint are "
        "judged by the exact join geometry (bevel chord, miter point, natural extension, round radius); band = 3 x "
        "tolerance + 1e-9 x scale; (3) simple paths written to GDSII and OASIS PATH records and re-loaded cover the same "
        "decidable samples (band + 2 grid units); a simple path whose end type an OASIS PATH record cannot hold must be saved as "
        "its outline instead, which is probed the same way; (D) long simple paths: zigzag centre lines of 8189..20000 points "
        "(more than one GDSII XY record holds), with or without a constant offset, saved and re-loaded: every centre-line "
        "point within half a grid unit of the spine displaced by the offset (my own mitred offset polyline), same width. Non-trivial: >= 3 spine points, a non-zero offset or a taper, and a joint "
        "turning more than 10 degrees or a bend, or a long-path case; distinct by case hash")
ASSUMPTIONS = ["pbt/pathmodel.py is the trusted region model; samples in the undecidable band around the boundary are not used",
               "bend radii between 'clearly fits' (tangent length <= 0.8 x room) and 'clearly does not' (>= 1.25 x) are not generated",
               "Smooth joins are bounded between the bevel chord and 1.05 x the miter point; Smooth caps within 1.6 x half-width of the end"]

ANGLES = [0.0, 20.0, -20.0, 45.0, -45.0, 90.0, -90.0, 120.0, -120.0, 150.0, -150.0, 60.0, -60.0]


@st.composite
def element(draw, allow_bend):
    w = draw(st.sampled_from([0.5, 1.0, 2.0, 1.5]))
    o = draw(st.sampled_from([0.0, 0.0, 1.0, -1.5, 3.0, -3.0]))
    end = draw(st.integers(0, 5))
    ext = [draw(st.sampled_from([0.5, 2.0, 0.0, -0.5])), draw(st.sampled_from([0.5, 2.0, 0.0, -0.5]))]
    bend = draw(st.sampled_from([0, 0, 1, 1, 2])) if allow_bend else 0
    radius = draw(st.sampled_from([0.3, 2.0, 5.0, 10.0, 40.0, 200.0]))
    return {"w": w, "o": o, "join": draw(st.integers(0, 5)), "end": end, "ext": ext, "bend": bend, "radius": radius, "layer": draw(st.integers(0, 3))}


@st.composite
def poly_case(draw):
    nel = draw(st.sampled_from([1, 1, 2, 3]))
    taper = draw(st.booleans())
    els = [draw(element(not taper)) for _ in range(nel)]
    npts = draw(st.integers(3, 7))
    angles = [draw(st.sampled_from(ANGLES)) for _ in range(npts - 2)]
    # per-call targets
    ncalls = draw(st.integers(1, min(3, npts - 1)))
    cuts = sorted(draw(st.lists(st.integers(1, npts - 2), min_size=ncalls - 1, max_size=ncalls - 1, unique=True))) if ncalls > 1 else []
    bounds = [0] + cuts + [npts - 1]
    calls = []
    for a, b in zip(bounds[:-1], bounds[1:]):
        c = {"n": b - a, "rel": draw(st.booleans()), "how": draw(st.sampled_from(["seg", "seg", "seg1"])), "w": None, "o": None}
        if taper and draw(st.booleans()):
            c["w"] = [draw(st.sampled_from([0.5, 1.0, 2.0, 1.2])) for _ in range(nel)]
        if taper and draw(st.booleans()):
            c["o"] = [draw(st.sampled_from([0.0, 1.0, -1.5, 3.0, -3.0, 0.5])) for _ in range(nel)]
        calls.append(c)
    # geometry: lengths long enough for the joints
    reach = max([2.0] + [0.5 * max([e["w"]] + [w for c in calls if c["w"] for w in c["w"]]) + max([abs(e["o"])] + [abs(o) for c in calls if c["o"] for o in c["o"]]) for e in els])
    tans = [0.0] + [math.tan(math.radians(abs(a)) / 2) for a in angles] + [0.0]
    extra = [draw(st.sampled_from([2.0, 5.0, 12.0, 30.0])) for _ in range(npts - 1)]
    heading = math.radians(draw(st.sampled_from([0.0, 0.0, 90.0, 30.0, 180.0, -135.0, 17.0])))
    start = [draw(st.sampled_from([0.0, 10.0, -25.0])), draw(st.sampled_from([0.0, 5.0, -40.0]))]
    pts = [tuple(start)]
    for k in range(npts - 1):
        L = 1.4 * reach * (tans[k] + tans[k + 1]) + 2.2 * reach + extra[k]
        if taper:
            L *= 2
        pts.append((pts[-1][0] + L * math.cos(heading), pts[-1][1] + L * math.sin(heading)))
        if k < npts - 2:
            heading += math.radians(angles[k])
    return {"kind": "poly", "tol": draw(st.sampled_from([0.01, 0.01, 0.001, 0.05])), "els": els, "pts": [[round(p[0], 6), round(p[1], 6)] for p in pts], "calls": calls,
            "simple": draw(st.sampled_from([False, False, True])), "io": draw(st.sampled_from(["none", "gds", "oas"]))}


@st.composite
def smooth_case(draw):
    nel = draw(st.sampled_from([1, 2]))
    els = [draw(element(False)) for _ in range(nel)]
    for e in els:
        e["o"] = draw(st.sampled_from([0.0, 1.0, -1.5]))
        e["w"] = draw(st.sampled_from([0.2, 0.4, 0.5]))     # not wider than the spine steps of the turns below (tolerance 0.01)
        e["ext"] = [min(x, 0.4) for x in e["ext"]]
    secs = [["seg", draw(st.sampled_from([5.0, 12.0]))]]
    for _ in range(draw(st.integers(1, 4))):
        k = draw(st.sampled_from(["turn", "turn", "seg"]))
        if secs[-1][0] == "turn":
            k = "seg"     # a turn after a turn continues from the previous arc's last chord (C15): keep the model exact
        if k == "turn":
            secs.append(["turn", draw(st.sampled_from([6.0, 10.0, 25.0])), math.radians(draw(st.sampled_from([30.0, 90.0, -90.0, -45.0, 150.0, -170.0])))])
        else:
            secs.append(["seg", draw(st.sampled_from([5.0, 12.0, 20.0]))])
    targets = []
    taper = draw(st.booleans())
    for _ in secs:
        w = [draw(st.sampled_from([0.2, 0.4, 0.5])) for _ in range(nel)] if taper and draw(st.booleans()) else None
        # offsets stay constant here: where the taper rate changes at a section boundary the displaced lines can be nearly
        # parallel and their intersection (the centre joint) is ill-conditioned; offset tapers are judged on polylines
        targets.append([w, None])
    return {"kind": "smooth", "tol": 0.01, "els": els, "secs": secs, "targets": targets, "heading": math.radians(draw(st.sampled_from([0.0, 90.0, 33.0]))),
            "start": [0.0, 0.0]}


coord = st.sampled_from([0.0, 3.0, -4.0, 10.0, 7.5, -12.0, 20.0])


@st.composite
def history_case(draw):
    nel = draw(st.integers(1, 3))
    els = [draw(element(True)) for _ in range(nel)]
    calls = []
    for _ in range(draw(st.integers(1, 6))):
        k = draw(st.sampled_from(["seg", "hor", "ver", "cubic", "cubic_smooth", "quad", "quad_smooth", "bezier", "interp", "arc", "turn", "param", "commands"]))
        rel = draw(st.booleans())
        if k == "seg":
            body = [[draw(coord) + 0.37 * i, draw(coord) - 0.11 * i] for i in range(draw(st.integers(1, 3)))]
        elif k in ("hor", "ver"):
            body = [draw(coord) + 1.3 * i for i in range(draw(st.integers(1, 3)))]
        elif k == "cubic":
            body = [[draw(coord), draw(coord)] for _ in range(3 * draw(st.integers(1, 2)))]
        elif k in ("cubic_smooth", "quad"):
            body = [[draw(coord), draw(coord)] for _ in range(2 * draw(st.integers(1, 2)))]
        elif k == "quad_smooth":
            body = [[draw(coord), draw(coord)] for _ in range(draw(st.integers(1, 2)))]
        elif k == "bezier":
            body = [[draw(coord), draw(coord)] for _ in range(draw(st.integers(2, 5)))]
        elif k == "interp":
            body = [[draw(coord) + 1.7 * i + 0.9, draw(coord) - 2.3 * i - 0.4] for i in range(draw(st.integers(2, 4)))]
        elif k == "arc":
            body = [draw(st.sampled_from([2.0, 5.0])), draw(st.sampled_from([2.0, 5.0, 1.0])), draw(st.sampled_from([0.0, 1.0, -2.0])), draw(st.sampled_from([1.5, 3.0, -4.0, 7.0])), draw(st.sampled_from([0.0, 0.5]))]
        elif k == "turn":
            body = [draw(st.sampled_from([2.0, 5.0])), draw(st.sampled_from([1.0, -1.5708, 3.0]))]
        elif k == "param":
            body = [draw(st.integers(0, 4)), [draw(st.sampled_from([3.0, 5.0, -4.0])), draw(st.sampled_from([1.0, 2.0])), draw(st.sampled_from([1.0, 3.0])), 0.0]]
        else:
            body = draw(st.sampled_from([["c:l", 3.0, 1.0, "c:H", 7.0], ["c:a", 2.0, 1.5708, "c:v", -3.0], ["c:c", 1.0, 2.0, 3.0, 2.0, 4.0, 0.0, "c:s", 2.0, -2.0, 4.0, 0.0],
                                         ["c:q", 1.0, 2.0, 3.0, 0.0, "c:t", 3.0, 0.0, "c:L", 0.5, 0.25]]))
        w = [draw(st.sampled_from([0.5, 1.0, 2.0])) for _ in range(nel)] if draw(st.booleans()) and k != "commands" else None
        o = [draw(st.sampled_from([0.0, 1.0, -1.5])) for _ in range(nel)] if draw(st.booleans()) and k != "commands" else None
        calls.append({"k": k, "rel": rel, "body": body, "w": w, "o": o})
    return {"kind": "history", "tol": 0.01, "els": els, "start": [draw(coord), draw(coord)], "calls": calls}


# ---------------------------------------------------------------------------- script helpers
def spec(v):
    return "-" if v is None else "W " + " ".join(fl(x) for x in v)


def new_lines(pid, start, els, tol, simple):
    lines = ["fp new %s %s %s %d %s %d 1 %s" % (pid, fl(start[0]), fl(start[1]), len(els), fl(tol), 1 if simple else 0,
                                                " ".join("%s %s %d 0" % (fl(e["w"]), fl(e["o"]), e["layer"]) for e in els))]
    for i, e in enumerate(els):
        lines.append("fp elem %s %d %d %d %s %s %d %s" % (pid, i, e["join"], e["end"], fl(e["ext"][0]), fl(e["ext"][1]), e["bend"], fl(e["radius"])))
    return lines


def ramp_check(fail, before, after, els_n, w, o, what):
    """bookkeeping invariant of one call"""
    nb, na = len(before["spine"]), len(after["spine"])
    for i in range(els_n):
        hb, ha = before["elements"][i]["hwo"], after["elements"][i]["hwo"]
        if len(ha) != na:
            fail("%s: element %d has %d width/offset entries for %d spine points" % (what, i, len(ha), na))
        if ha[:len(hb)] != hb:
            fail("%s: earlier width/offset entries of element %d changed" % (what, i))
        n = na - nb
        if n <= 0:
            continue
        h0, o0 = hb[-1]
        h1 = h0 if w is None else 0.5 * w[i]
        o1 = o0 if o is None else o[i]
        for j in range(1, n + 1):
            eh = h0 + (h1 - h0) * j / n
            eo = o0 + (o1 - o0) * j / n
            gh, go = ha[len(hb) + j - 1]
            if abs(gh - eh) > 1e-9 * max(1, abs(eh)) or abs(go - eo) > 1e-9 * max(1, abs(eo)):
                fail("%s: element %d entry %d of %d is (half-width %r, offset %r), the linear ramp from (%r, %r) to (%r, %r) gives (%r, %r)" %
                     (what, i, j, n, gh, go, h0, o0, h1, o1, eh, eo))


def probe_elements(ctx, case, fail, spine, hws, offs, els, polys, tol, extra_band, label, labels):
    tot_in = tot_out = 0
    sc = max(1.0, max(abs(c) for p in spine for c in p))
    band = 3 * tol + 1e-9 * sc + extra_band
    for i, e in enumerate(els):
        try:
            fits = []
            m = pm.build(spine, hws[i], offs[i], e, tol, fits)
        except pm.Degenerate as d:
            labels.append("degenerate_not_judged")
            continue
        for f in fits:
            labels.append("bend_" + f)
        n_in, n_out, bad = pm.probe(m, polys[i], band)
        tot_in += n_in
        tot_out += n_out
        if bad:
            fail("%s element %d (join %d, end %d, bend %d radius %g): %s" % (label, i, e["join"], e["end"], e["bend"], e["radius"], bad))
    ctx.stats.count("samples_inside", tot_in)
    ctx.stats.count("samples_outside", tot_out)
    return tot_in + tot_out


def check_poly(ctx, case, ignore_known=False):
    els, pts, tol = case["els"], [tuple(p) for p in case["pts"]], case["tol"]
    nel = len(els)
    simple = case["simple"]
    lines = new_lines("p", pts[0], els, tol, simple) + ["dump fp p"]
    idx = 0
    hws = [[0.5 * e["w"]] for e in els]
    offs = [[e["o"]] for e in els]
    marks = []
    for c in case["calls"]:
        seg = pts[idx + 1: idx + 1 + c["n"]]
        ref = pts[idx]
        idx += c["n"]
        body = [((p[0] - ref[0], p[1] - ref[1]) if c["rel"] else p) for p in seg]
        if c["how"] == "seg1" and len(body) == 1:
            lines.append("fp seg p %d 1 %s %s %s %s" % (1 if c["rel"] else 0, fl(body[0][0]), fl(body[0][1]), spec(c["w"]), spec(c["o"])))
        else:
            lines.append("fp seg p %d %d %s %s %s" % (1 if c["rel"] else 0, len(body), " ".join(fl(v) for p in body for v in p), spec(c["w"]), spec(c["o"])))
        lines.append("dump fp p")
        marks.append(c)
        for i in range(nel):
            h0, o0 = hws[i][-1], offs[i][-1]
            h1 = h0 if c["w"] is None else 0.5 * c["w"][i]
            o1 = o0 if c["o"] is None else c["o"][i]
            for j in range(1, c["n"] + 1):
                hws[i].append(h0 + (h1 - h0) * j / c["n"])
                offs[i].append(o0 + (o1 - o0) * j / c["n"])
    lines.append("fp topoly p 0 0 0 -")
    io = case["io"] if simple else "none"
    if io != "none":
        path = os.path.join(ctx.tmpdir, "c07.%s" % io)
        lines += ["cell new c %s" % hx("TOP"), "cell add c fp p", "lib new l %s %s %s" % (hx("L"), fl(1e-6), fl(1e-9)), "lib add l c"]
        if io == "gds":
            lines += ["io write_gds l %s 199" % path, "io read_gds r %s 0 %s N" % (path, fl(1e-3))]
        else:
            lines += ["io write_oas l %s %s 6 0" % (path, fl(0)), "io read_oas r %s 0 %s" % (path, fl(1e-3))]
        lines += ["hier get_flexpaths r.0 0 0 0 0 0 q", "dump lib r"]
    outs = ctx.run(lines, case)

    def fail(msg):
        raise Violation(msg, case, None, None, lines)
    dumps = [o["fp"] for o in outs if isinstance(o, dict) and "fp" in o]
    labels = ["poly", "elements_%d" % nel]
    for k, c in enumerate(marks):
        ramp_check(fail, dumps[k], dumps[k + 1], nel, c["w"], c["o"], "segment call %d" % k)
    sp = dumps[-1]["spine"]
    if len(sp) != len(pts) or any(abs(a[0] - b[0]) > 1e-9 * max(1, abs(b[0])) or abs(a[1] - b[1]) > 1e-9 * max(1, abs(b[1])) for a, b in zip(sp, pts)):
        fail("the spine %s is not the requested point list %s" % (sp, pts))
    top = [o for o in outs if isinstance(o, dict) and "result" in o and "err" in o][0]
    if top["err"] != 0 or len(top["result"]) != nel:
        fail("to_polygons returned error %d and %d polygons for %d elements" % (top["err"], len(top["result"]), nel))
    polys = [p["pts"] for p in top["result"]]
    n = probe_elements(ctx, case, fail, pts, hws, offs, els, polys, tol, 0.0, "to_polygons", labels)
    if io != "none":
        rd = [o for o in outs if isinstance(o, dict) and "ncells" in o][0]
        res = [o for o in outs if isinstance(o, dict) and "result" in o and "err" not in o][0]["result"]
        if rd["err"] != 0:
            fail("re-loading the %s file failed with error %d" % (io, rd["err"]))
        # a simple path is stored as one PATH record per element: constant width (the first), centre line, end type
        const = all(abs(h - hw[0]) < 1e-12 for hw in hws for h in hw)
        no_record = io == "oas" and any(e["end"] == pm.E_ROUND for e in els)
        if const and no_record and len(res) == 0:
            # OASIS PATH records have no round end: such a path is not saved as PATH records but as its outline (one polygon
            # per element, in element order), which must denote the same region
            rpolys = [o for o in outs if isinstance(o, dict) and "lib" in o][0]["lib"]["cells"][0]["polygons"]
            if len(rpolys) != nel:
                fail("oas: a round-ended simple path with %d elements was saved as %d polygons and no PATH record" % (nel, len(rpolys)))
            for i, e in enumerate(els):
                try:
                    m = pm.build(pts, hws[i], offs[i], dict(e), tol)
                except pm.Degenerate:
                    continue
                sc = max(1.0, max(abs(c) for p in pts for c in p))
                band = 3 * tol + 1e-9 * sc + 3e-3
                n_in, n_out, bad = pm.probe(m, rpolys[i]["pts"], band)
                ctx.stats.count("samples_path_record", n_in + n_out)
                if bad:
                    fail("oas: outline saved for element %d of a round-ended simple path (end %d): %s" % (i, e["end"], bad))
            labels.append("path_as_outline_oas")
        elif const and all(e["end"] in (0, 1, 2, 3) for e in els):
            if len(res) != nel:
                fail("%s: %d paths re-loaded for %d elements of a simple path" % (io, len(res), nel))
            lines2 = []
            for i in range(len(res)):
                lines2.append("fp topoly q.%d 0 0 0 -" % i)
            outs2 = ctx.run(lines + lines2, case)[-len(res):]
            for i, e in enumerate(els):
                rp = outs2[i]["result"]
                if len(rp) != 1:
                    fail("%s: re-loaded path %d yields %d polygons" % (io, i, len(rp)))
                e2 = dict(e)
                rel = res[i]["elements"][0]
                e2["join"] = max(e["join"], rel["join"]) if False else e["join"]
                # the re-loaded path has its own join type: judge with the larger reach of the two by using undecidable joints
                e3 = dict(e)
                try:
                    m = pm.build(pts, hws[i], offs[i], e3, tol)
                except pm.Degenerate:
                    continue
                if rel["join"] != e["join"]:
                    for j in m.joints:
                        i2, o2 = pm.joint_reaches(rel["join"], j["hw"], j["theta"])
                        j["inner"] = min(j["inner"], i2)
                        j["exact_outer"] = max(j["exact_outer"], o2)
                        j["outer"] = max(j["outer"], o2)
                sc = max(1.0, max(abs(c) for p in pts for c in p))
                band = 3 * tol + 1e-9 * sc + 3e-3
                n_in, n_out, bad = pm.probe(m, rp[0]["pts"], band)
                ctx.stats.count("samples_path_record", n_in + n_out)
                if bad:
                    fail("%s PATH record of element %d (end %d): %s" % (io, i, e["end"], bad))
            labels.append("path_record_" + io)
    nt = len(pts) >= 3 and (any(o != 0 for of in offs for o in of) or any(abs(h - hw[0]) > 0 for hw in hws for h in hw)) and n > 0
    ctx.stats.note(case, nt, labels + ["join_%d" % e["join"] for e in els] + ["end_%d" % e["end"] for e in els] + ["bend_%d" % e["bend"] for e in els])


def check_smooth(ctx, case):
    els, tol = case["els"], case["tol"]
    nel = len(els)
    lines = new_lines("p", case["start"], els, tol, False) + ["dump fp p"]
    h = case["heading"]
    cur = tuple(case["start"])
    # my own densified spine with per-point half-widths/offsets (ramps are linear in the vertex index, which for segments
    # and circular arcs is linear in length/angle)
    spine = [cur]
    hws = [[0.5 * e["w"]] for e in els]
    offs = [[e["o"]] for e in els]
    for s, (w, o) in zip(case["secs"], case["targets"]):
        if s[0] == "seg":
            L = s[1]
            q = (cur[0] + L * math.cos(h), cur[1] + L * math.sin(h))
            lines.append("fp seg p 0 1 %s %s %s %s" % (fl(q[0]), fl(q[1]), spec(w), spec(o)))
            newp = [q]
            cur = q
        else:
            r, ang = s[1], s[2]
            lines.append("fp turn p %s %s %s %s" % (fl(r), fl(ang), spec(w), spec(o)))
            side = 1 if ang > 0 else -1
            c = (cur[0] - side * r * math.sin(h), cur[1] + side * r * math.cos(h))
            a0 = math.atan2(cur[1] - c[1], cur[0] - c[0])
            steps = max(2, int(math.ceil(abs(ang) / (2 * math.sqrt(0.6 * tol / r)))))
            newp = [(c[0] + r * math.cos(a0 + ang * i / steps), c[1] + r * math.sin(a0 + ang * i / steps)) for i in range(1, steps + 1)]
            h += ang
            cur = newp[-1]
        lines.append("dump fp p")
        n = len(newp)
        for i in range(nel):
            h0, o0 = hws[i][-1], offs[i][-1]
            h1 = h0 if w is None else 0.5 * w[i]
            o1 = o0 if o is None else o[i]
            for j in range(1, n + 1):
                hws[i].append(h0 + (h1 - h0) * j / n)
                offs[i].append(o0 + (o1 - o0) * j / n)
        spine += newp
    lines.append("fp topoly p 0 0 0 -")
    outs = ctx.run(lines, case)

    def fail(msg):
        raise Violation(msg, case, None, None, lines)
    dumps = [o["fp"] for o in outs if isinstance(o, dict) and "fp" in o]
    for k, (w, o) in enumerate(case["targets"]):
        ramp_check(fail, dumps[k], dumps[k + 1], nel, w, o, "call %d (%s)" % (k, case["secs"][k][0]))
    end = dumps[-1]["spine"][-1]
    if math.hypot(end[0] - cur[0], end[1] - cur[1]) > 1e-9 * max(1.0, abs(cur[0]), abs(cur[1])):
        fail("the spine ends at %s, the calls lead to %s" % (end, cur))
    top = outs[-1]
    if top["err"] != 0 or len(top["result"]) != nel:
        fail("to_polygons returned error %d and %d polygons for %d elements" % (top["err"], len(top["result"]), nel))
    labels = ["smooth"]
    # radius of every turn must exceed the reach of every element (non-degenerate)
    for s in case["secs"]:
        if s[0] == "turn":
            for i in range(nel):
                if s[1] < 1.5 * (max(hws[i]) + max(abs(x) for x in offs[i])) + 0.5:
                    ctx.stats.note(case, False, ["smooth_too_tight_not_judged"])
                    return
    els2 = [dict(e, join=pm.ROUND if e["join"] in (pm.SMOOTH,) else e["join"], bend=0) for e in els]
    n = probe_elements(ctx, case, fail, spine, hws, offs, els2, [p["pts"] for p in top["result"]], tol, 0.02, "to_polygons", labels)
    nt = n > 0 and (any(o != 0 for of in offs for o in of) or any(abs(x - hw[0]) > 0 for hw in hws for x in hw))
    ctx.stats.note(case, nt, labels + ["end_%d" % e["end"] for e in els])


def call_lines(pid, kind, c, n_el_prefix=True):
    k, rel, body = c["k"], 1 if c["rel"] else 0, c["body"]
    tail = (" %s %s" % (spec(c["w"]), spec(c["o"]))) if kind == "fp" else ""
    if k == "seg":
        return "%s seg %s %d %d %s%s" % (kind, pid, rel, len(body), " ".join(fl(v) for p in body for v in p), tail)
    if k in ("hor", "ver"):
        return "%s %s %s %d %d %s%s" % (kind, k, pid, rel, len(body), " ".join(fl(v) for v in body), tail)
    if k in ("cubic", "cubic_smooth", "quad", "quad_smooth", "bezier"):
        return "%s %s %s %d %d %s%s" % (kind, k, pid, rel, len(body), " ".join(fl(v) for p in body for v in p), tail)
    if k == "interp":
        n = len(body)
        return "%s interp %s %d 0 1 1 %d %s %s T %s%s" % (kind, pid, rel, n, " ".join(fl(v) for p in body for v in p), " ".join(["-"] * (n + 1)), " ".join([fl(1.0)] * (2 * (n + 1))), tail)
    if k == "arc":
        return "%s arc %s %s%s" % (kind, pid, " ".join(fl(v) for v in body), tail)
    if k == "turn":
        return "%s turn %s %s %s%s" % (kind, pid, fl(body[0]), fl(body[1]), tail)
    if k == "param":
        return "%s param %s %d %d %s%s" % (kind, pid, rel, body[0], " ".join(fl(v) for v in body[1]), tail)
    return "%s commands %s %d %s" % (kind, pid, len(body), " ".join(b if isinstance(b, str) else fl(b) for b in body))


def check_history(ctx, case):
    els, tol = case["els"], case["tol"]
    nel = len(els)
    lines = new_lines("p", case["start"], els, tol, False) + ["dump fp p", "curve new c %s %s %s" % (fl(case["start"][0]), fl(case["start"][1]), fl(tol)), "curve dump c"]
    for c in case["calls"]:
        lines.append(call_lines("p", "fp", c))
        lines.append("dump fp p")
        lines.append(call_lines("c", "curve", c))
        lines.append("curve dump c")
    lines.append("fp topoly p 0 0 0 -")
    outs = ctx.run(lines, case)

    def fail(msg):
        raise Violation(msg, case, None, None, lines)
    dumps = [o["fp"] for o in outs if isinstance(o, dict) and "fp" in o]
    curves = [o for o in outs if isinstance(o, dict) and "pts" in o and "last_ctrl" in o]
    labels = ["history"]
    for k, c in enumerate(case["calls"]):
        what = "call %d (%s)" % (k, c["k"])
        if c["k"] == "commands":
            w = o = None
        else:
            w, o = c["w"], c["o"]
        ramp_check(fail, dumps[k], dumps[k + 1], nel, w, o, what)
        a, b = dumps[k + 1]["spine"], curves[k + 1]["pts"]
        if len(a) != len(b) or any(abs(p[0] - q[0]) > 1e-12 * max(1, abs(q[0])) or abs(p[1] - q[1]) > 1e-12 * max(1, abs(q[1])) for p, q in zip(a, b)):
            fail("%s: the spine has %d points ending at %s, a Curve built by the same calls has %d ending at %s" % (what, len(a), a[-1], len(b), b[-1]))
        labels.append("call_" + c["k"])
    top = outs[-1]
    # (the outline of an arbitrary history is not judged: the property bounds it only for non-degenerate geometry; the
    # call must return without a sanitizer report)
    if top["err"] == 0 and len(top["result"]) != nel:
        fail("to_polygons returned %d polygons for %d elements" % (len(top["result"]), nel))
    ctx.stats.note(case, len(case["calls"]) >= 2 and any(c["w"] or c["o"] for c in case["calls"]), labels)


@st.composite
def long_case(draw):
    """a simple path whose centre line has about 8190 points (the most one GDSII XY record holds) or more: zigzag spine,
    constant width, zero or constant offset, saved as PATH records and re-loaded"""
    n = draw(st.sampled_from([8189, 8190, 8191, 8192, 8193, 9000, 16380, 16381, 16382, 20000]))
    return {"kind": "long", "n": n, "x0": float(draw(st.integers(-50, 50))), "y0": float(draw(st.integers(-50, 50))),
            "dx": draw(st.sampled_from([0.5, 0.8])), "dy": draw(st.sampled_from([0.3, 0.7])), "w": draw(st.sampled_from([0.1, 0.2])),
            "o": draw(st.sampled_from([0.0, 0.0, 0.05, -0.1])), "end": draw(st.sampled_from([0, 2])), "io": draw(st.sampled_from(["gds", "gds", "oas"]))}


def check_long(ctx, case):
    n, io = case["n"], case["io"]
    pts = [(case["x0"] + case["dx"] * i, case["y0"] + (case["dy"] if i % 2 else 0.0)) for i in range(n)]
    el = {"w": case["w"], "o": case["o"], "layer": 1, "join": 0, "end": case["end"], "ext": [0.0, 0.0], "bend": 0, "radius": 0.0}
    path = os.path.join(ctx.tmpdir, "c07long.%s" % io)
    lines = new_lines("p", pts[0], [el], 0.01, True)
    lines.append("fp seg p 0 %d %s - -" % (n - 1, " ".join(fl(c) for q in pts[1:] for c in q)))
    lines += ["cell new c %s" % hx("TOP"), "cell add c fp p", "lib new l %s %s %s" % (hx("L"), fl(1e-6), fl(1e-9)), "lib add l c"]
    if io == "gds":
        lines += ["io write_gds l %s 0" % path, "io read_gds r %s 0 %s N" % (path, fl(1e-4))]
    else:
        lines += ["io write_oas l %s %s 6 0" % (path, fl(0)), "io read_oas r %s 0 %s" % (path, fl(1e-4))]
    lines += ["hier get_flexpaths r.0 0 0 0 0 0 q"]
    outs = ctx.run(lines, case)

    def fail(msg):
        raise Violation(msg, case, None, None, lines[:2] + ["... (%d lines)" % len(lines)])
    rd = [o for o in outs if isinstance(o, dict) and "ncells" in o][0]
    res = [o for o in outs if isinstance(o, dict) and "result" in o and "err" not in o][0]["result"]
    if rd["err"] != 0:
        fail("re-loading the %s file failed with error %d" % (io, rd["err"]))
    if len(res) != 1:
        fail("%s: %d paths re-loaded for a one-element simple path of %d points" % (io, len(res), n))
    # centre line: the spine displaced by the offset, mitred at every corner (every corner of the zigzag is far from collinear)
    import gdsmodel
    want = gdsmodel.offset_polyline(pts, case["o"]) if case["o"] else pts
    got = res[0]["spine"]
    if len(got) != len(want):
        fail("%s PATH record(s): %d centre-line points re-loaded, the path has %d" % (io, len(got), len(want)))
    worst, wi = 0.0, 0
    for i, (a, b) in enumerate(zip(got, want)):
        d = max(abs(a[0] - b[0]), abs(a[1] - b[1]))
        if d > worst:
            worst, wi = d, i
    if worst > 0.5e-3 + 1e-6:
        fail("%s PATH record(s): centre-line point %d re-loads as %s, the path has %s" % (io, wi, tuple(got[wi]), tuple(round(v, 6) for v in want[wi])))
    gw = 2 * res[0]["elements"][0]["hwo"][0][0]
    if abs(gw - case["w"]) > 1.1e-3:
        fail("%s PATH record(s): width %r, the path has %r" % (io, gw, case["w"]))
    ctx.stats.note(case, True, ["long", "long_" + io, "long_n_%d" % n, "long_offset" if case["o"] else "long_centered"])


def check(ctx, case, ignore_known=False):
    if case["kind"] == "long":
        return check_long(ctx, case)
    if case["kind"] == "poly":
        return check_poly(ctx, case, ignore_known)
    if case["kind"] == "smooth":
        return check_smooth(ctx, case)
    return check_history(ctx, case)


def run_worker(ctx):
    q = ctx.tier == "quick"
    vs = []
    for name, strat, total in (("poly", poly_case(), 6000 if q else 60000), ("smooth", smooth_case(), 1500 if q else 12000), ("history", history_case(), 3000 if q else 30000),
                               ("long", long_case(), 48 if q else 400)):
        v = ctx.hypothesis(check, strat, ctx.share(total), name)
        if v:
            vs.append(v)
    return vs


def replay(ctx, test, case, ignore_known=False):
    return check(ctx, case, ignore_known)
