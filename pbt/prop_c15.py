"""C15 - curves and shape primitives stay within tolerance of the exact geometry."""
import math

import numpy as np
from scipy.spatial import cKDTree
from hypothesis import strategies as st

from common import Violation, fl

LEVEL = "exploration"
RULE = ("(A) curve histories: a start point, a tolerance from 2x the feature size down to 1e-6x, and 1-5 sections (quick; 1-10 "
        "thorough) drawn from segment(s), horizontal, vertical, cubic, cubic_smooth, quadratic, quadratic_smooth, Bezier of "
        "degree 2..8, arc (any sign and span incl. more than a full turn, axis ratios up to 20, any rotation), turn, "
        "parametric (menu functions), interpolation, relative and absolute, with cusps / near-collinear / coincident "
        "controls; each history is also spelled as a `commands` string where the grammar allows. Oracle: my own record of the "
        "history gives each section's analytic curve (control polygon incl. the reflected control of smooth sections from "
        "MY last-control record, arc centre from the current point); per section (1) the first emitted vertex continues "
        "from the current end and the last equals the requested end (1e-12 relative), (2) every vertex is finite and on the "
        "analytic curve (<= 1e-9 x scale) at non-decreasing parameter, (3) for arcs and for polynomial sections whose "
        "control directions span < 90 degrees the one-sided Hausdorff distance curve -> polyline is <= 2 x tolerance; "
        "commands() must produce the same vertices as the calls. (B) primitives: ellipse (full, ring, slice, ring slice, "
        "eccentric), racetrack, fillet, rectangle, cross, regular_polygon against exact vertex formulas / the same "
        "deviation bound. Non-trivial: a smooth section following a non-segment, or axis ratio >= 3, or tolerance >= 0.1 x "
        "feature, or a cusp; distinct by case hash")
ASSUMPTIONS = ["K = 2 (calibrated on the unchanged tree: arcs 1.36, cubics 1.10, full ellipses 1.00)",
               "turn/smooth after an arc continue from the arc's last emitted chord (what the API defines continuity against)",
               "interpolation (Hobby) is judged for interpolating the given points in order, finiteness and end point only"]

K = 2.0
K_FILLET = 2.5   # fillets have no 4-point minimum: one chord after round-to-nearest spans up to 1.5 ideal steps = 2.25 x sagitta
coord = st.one_of(st.integers(-20, 20).map(float), st.floats(-20, 20, allow_nan=False).map(lambda v: round(v, 3)))


def pt():
    return st.tuples(coord, coord).map(list)


@st.composite
def section(draw, thorough):
    k = draw(st.sampled_from(["seg", "seg", "hor", "ver", "cubic", "cubic", "cubic_smooth", "quad", "quad_smooth", "bezier", "arc", "arc", "arc", "turn",
                              "param", "interp"]))
    rel = draw(st.booleans())
    if k == "seg":
        return [k, rel, draw(st.lists(pt(), min_size=1, max_size=3))]
    if k in ("hor", "ver"):
        return [k, rel, draw(st.lists(coord, min_size=1, max_size=3))]
    if k == "cubic":
        return [k, rel, [draw(pt()) for _ in range(3 * draw(st.integers(1, 2)))]]
    if k == "cubic_smooth":
        return [k, rel, [draw(pt()) for _ in range(2 * draw(st.integers(1, 2)))]]
    if k == "quad":
        return [k, rel, [draw(pt()) for _ in range(2 * draw(st.integers(1, 2)))]]
    if k == "quad_smooth":
        return [k, rel, [draw(pt()) for _ in range(draw(st.integers(1, 2)))]]
    if k == "bezier":
        n = draw(st.integers(1, 7))
        pts = [draw(pt()) for _ in range(n)]
        if draw(st.integers(0, 5)) == 0 and n >= 2:
            pts[1] = list(pts[0])  # coincident controls
        return [k, rel, pts]
    if k == "arc":
        rx = draw(st.sampled_from([1.0, 2.0, 5.0, 10.0, 0.5, 20.0]))
        ry = draw(st.sampled_from([rx, rx, rx / 2, rx / 3, rx / 10, rx / 20, rx * 2]))
        a0 = draw(st.sampled_from([0.0, 0.5, -1.0, math.pi / 2, math.pi, -math.pi, 3.0, -4.0, 7.0]))
        span = draw(st.sampled_from([0.1745, 0.5, 1.0, math.pi / 2, math.pi, 4.0, 2 * math.pi, 7.5, -0.3, -math.pi / 2, -3.0, -7.0]))
        rot = draw(st.sampled_from([0.0, 0.0, 0.3, math.pi / 2, -1.0, 2.5]))
        return [k, rx, ry, a0, a0 + span, rot]
    if k == "turn":
        return [k, draw(st.sampled_from([0.5, 1.0, 3.0, 10.0])), draw(st.sampled_from([0.3, math.pi / 2, -math.pi / 2, math.pi, -2.0, 4.0]))]
    if k == "param":
        f = draw(st.integers(0, 4))
        return [k, rel, f, [draw(st.sampled_from([3.0, 5.0, -4.0, 10.0])), draw(st.sampled_from([1.0, 2.0, -3.0])), draw(st.sampled_from([1.0, 3.0, 6.283])), 0.0]]
    n = draw(st.integers(2, 5))
    pts = []
    for _ in range(n):
        p = draw(pt())
        while pts and math.hypot(p[0] - pts[-1][0], p[1] - pts[-1][1]) < 0.5:
            p = [p[0] + 1.7, p[1] - 0.9]
        pts.append(p)
    return [k, rel, pts, draw(st.booleans())]


@st.composite
def curve_case(draw, thorough):
    tol = draw(st.sampled_from([1e-2, 1e-2, 1e-3, 1e-4, 1e-5, 0.1, 0.5, 1.0, 5.0, 40.0]))
    secs = [draw(section(thorough)) for _ in range(draw(st.integers(1, 10 if thorough else 5)))]
    while secs[0][0] in ("cubic_smooth", "quad_smooth", "turn"):
        # a continuation of nothing has no defined meaning: start with a plain segment instead
        secs[0] = ["seg", True, [[3.0, 1.0]]] if len(secs) > 1 else draw(section(thorough))
    return {"kind": "curve", "start": draw(pt()), "tol": tol, "sections": secs}


# ---------------------------------------------------------------------------- analytic pieces
def bezier_eval(ctrl, t):
    """ctrl: (n,2) array, t: array -> (len(t),2)"""
    pts = np.repeat(ctrl[None, :, :], len(t), axis=0)
    tt = t[:, None, None]
    while pts.shape[1] > 1:
        pts = pts[:, :-1, :] * (1 - tt) + pts[:, 1:, :] * tt
    return pts[:, 0, :]


def ell_param(a, rx, ry):
    """parametric angle of the ellipse point seen from the centre under geometric angle a (same turn as a)"""
    if rx == ry:
        return a
    base = math.atan2(rx * math.sin(a), ry * math.cos(a))
    # unwrap to be within pi of a
    k = round((a - base) / (2 * math.pi))
    return base + 2 * math.pi * k


class Piece:
    def __init__(self, kind, f, start, end, judged, label, cands=None):
        self.kind, self.f, self.start, self.end, self.judged, self.label = kind, f, start, end, judged, label
        self.cands = cands or (lambda v: sampled_candidates(f, v))


def power_basis(ctrl):
    """coefficients (highest power first, as numpy.roots wants) of the x and y polynomials of a Bezier curve"""
    n = len(ctrl) - 1
    cx, cy = [], []
    for k in range(n + 1):
        ax = ay = 0.0
        for i in range(k + 1):
            w = math.comb(k, i) * (-1) ** (k - i)
            ax += w * ctrl[i][0]
            ay += w * ctrl[i][1]
        cx.append(math.comb(n, k) * ax)
        cy.append(math.comb(n, k) * ay)
    return cx[::-1], cy[::-1]


def bezier_candidates(ctrl, f):
    cx, cy = power_basis(ctrl)

    def cands(v):
        ts = [0.0, 1.0]
        for co, val in ((cx, v[0]), (cy, v[1])):
            c = list(co)
            c[-1] -= val
            while len(c) > 1 and c[0] == 0:
                c.pop(0)
            if len(c) < 2:
                continue
            for r in np.roots(c):
                if abs(r.imag) < 1e-6 and -1e-9 <= r.real <= 1 + 1e-9:
                    ts.append(min(1.0, max(0.0, float(r.real))))
        out = []
        for t in ts:
            # polish: a few Newton steps on the squared distance along the curve
            tt = t
            for _ in range(3):
                h = 1e-6
                p0 = f(np.array([max(0.0, tt - h), tt, min(1.0, tt + h)]))
                d = p0[2] - p0[0]
                l2 = float(d[0] * d[0] + d[1] * d[1])
                if l2 == 0:
                    break
                g = float((v[0] - p0[1][0]) * d[0] + (v[1] - p0[1][1]) * d[1]) / l2
                tt = min(1.0, max(0.0, tt + g * (min(1.0, tt + h) - max(0.0, tt - h))))
            for x in (t, tt):
                q = f(np.array([x]))[0]
                out.append((x, math.hypot(q[0] - v[0], q[1] - v[1])))
        return out
    return cands


def sampled_candidates(f, v, T=2000):
    """local minima of the distance from v to a densely sampled curve, each refined by golden section"""
    t = np.linspace(0, 1, T + 1)
    pts = f(t)
    d = np.hypot(pts[:, 0] - v[0], pts[:, 1] - v[1])
    idx = [i for i in np.argsort(d)[:6]]
    out = []
    seen = []
    gr = (math.sqrt(5) - 1) / 2

    def dist(x):
        q = f(np.array([x]))[0]
        return math.hypot(q[0] - v[0], q[1] - v[1])
    for i in idx:
        if any(abs(i - j) <= 2 for j in seen):
            continue
        seen.append(i)
        a, b = t[max(0, i - 1)], t[min(T, i + 1)]
        c, dd = b - gr * (b - a), a + gr * (b - a)
        fc, fd = dist(c), dist(dd)
        for _ in range(50):
            if fc < fd:
                b, dd, fd = dd, c, fc
                c = b - gr * (b - a)
                fc = dist(c)
            else:
                a, c, fc = c, dd, fd
                dd = a + gr * (b - a)
                fd = dist(dd)
        x = (a + b) / 2
        out.append((x, dist(x)))
        out.append((float(t[i]), float(d[i])))
    return out


def dirs_span_lt_90(ctrl):
    d = []
    for a, b in zip(ctrl[:-1], ctrl[1:]):
        v = (b[0] - a[0], b[1] - a[1])
        l = math.hypot(*v)
        if l < 1e-9:
            return False
        d.append((v[0] / l, v[1] / l))
    for i in range(len(d)):
        for j in range(i + 1, len(d)):
            if d[i][0] * d[j][0] + d[i][1] * d[j][1] <= 1e-6:
                return False
    return True


def bezier_piece(ctrl, label):
    c = np.array(ctrl, dtype=float)
    f = lambda t, c=c: bezier_eval(c, t)
    return Piece("bezier", f, tuple(ctrl[0]), tuple(ctrl[-1]), dirs_span_lt_90(ctrl), label, bezier_candidates(ctrl, f))


def arc_piece(cur, rx, ry, a0, a1, rot):
    t0, t1 = ell_param(a0 - rot, rx, ry), ell_param(a1 - rot, rx, ry)
    cr, sr = math.cos(rot), math.sin(rot)

    def E(th):
        x, y = rx * np.cos(th), ry * np.sin(th)
        return np.stack([x * cr - y * sr, x * sr + y * cr], axis=1)
    p0 = E(np.array([t0]))[0]
    cx, cy = cur[0] - p0[0], cur[1] - p0[1]

    def f(t):
        th = t0 + (t1 - t0) * t
        return E(th) + np.array([cx, cy])
    e = f(np.array([1.0]))[0]

    def cands(v):
        x, y = v[0] - cx, v[1] - cy
        u, w = x * cr + y * sr, -x * sr + y * cr
        th = math.atan2(w / ry, u / rx)
        out = []
        m0 = math.floor((min(t0, t1) - th) / (2 * math.pi))
        for m in range(m0, m0 + int(abs(t1 - t0) / (2 * math.pi)) + 3):
            t = (th + 2 * math.pi * m - t0) / (t1 - t0)
            if -1e-9 <= t <= 1 + 1e-9:
                t = min(1.0, max(0.0, t))
                q = f(np.array([t]))[0]
                out.append((t, math.hypot(q[0] - v[0], q[1] - v[1])))
        if not out:
            for t in (0.0, 1.0):
                q = f(np.array([t]))[0]
                out.append((t, math.hypot(q[0] - v[0], q[1] - v[1])))
        return out
    return Piece("arc", f, tuple(cur), (float(e[0]), float(e[1])), True, "arc_ratio_%d" % min(20, int(round(max(rx, ry) / min(rx, ry)))), cands)


MENU = [lambda u, p: (p[0] * u, p[1] * u), lambda u, p: (p[0] * u, p[1] * u * u), lambda u, p: (p[0] * u, p[1] * np.sin(p[2] * u)),
        lambda u, p: (p[0] * np.sin(p[2] * u), p[0] * (1 - np.cos(p[2] * u))), lambda u, p: (p[0] * u + p[1] * u ** 3, p[2] * u * u)]


def pieces_of(sec, cur, last_ctrl):
    """analytic pieces of one call, plus the new (current point, last control) - from MY record of the history"""
    k = sec[0]
    out = []
    if k == "seg":
        rel, pts = sec[1], sec[2]
        ref = cur
        prev = cur
        for p in pts:
            q = (ref[0] + p[0], ref[1] + p[1]) if rel else tuple(p)
            out.append(bezier_piece([prev, q], "segment"))
            last_ctrl = prev
            prev = q
        return out, prev, last_ctrl
    if k in ("hor", "ver"):
        rel, cs = sec[1], sec[2]
        ref = cur
        prev = cur
        for c in cs:
            if k == "hor":
                q = ((ref[0] + c) if rel else c, ref[1])
            else:
                q = (ref[0], (ref[1] + c) if rel else c)
            out.append(bezier_piece([prev, q], "segment"))
            last_ctrl = prev
            prev = q
        return out, prev, last_ctrl

    def ab(p, ref):
        return (ref[0] + p[0], ref[1] + p[1])
    if k in ("cubic", "cubic_smooth", "quad", "quad_smooth", "bezier"):
        rel, pts = sec[1], sec[2]
        ref = cur
        P = [ab(p, ref) if rel else tuple(p) for p in pts]
        prev = cur
        if k == "cubic":
            for i in range(0, len(P) - 2, 3):
                out.append(bezier_piece([prev, P[i], P[i + 1], P[i + 2]], "cubic"))
                last_ctrl = P[i + 1]
                prev = P[i + 2]
        elif k == "cubic_smooth":
            for i in range(0, len(P) - 1, 2):
                sm = (2 * prev[0] - last_ctrl[0], 2 * prev[1] - last_ctrl[1])
                out.append(bezier_piece([prev, sm, P[i], P[i + 1]], "cubic_smooth"))
                last_ctrl = P[i]
                prev = P[i + 1]
        elif k == "quad":
            for i in range(0, len(P) - 1, 2):
                out.append(bezier_piece([prev, P[i], P[i + 1]], "quad"))
                last_ctrl = P[i]
                prev = P[i + 1]
        elif k == "quad_smooth":
            for i in range(len(P)):
                sm = (2 * prev[0] - last_ctrl[0], 2 * prev[1] - last_ctrl[1])
                out.append(bezier_piece([prev, sm, P[i]], "quad_smooth"))
                last_ctrl = sm
                prev = P[i]
        else:
            ctrl = [prev] + P
            out.append(bezier_piece(ctrl, "bezier_deg%d" % (len(ctrl) - 1)))
            last_ctrl = ctrl[-2]
            prev = P[-1]
        return out, prev, last_ctrl
    if k == "arc":
        p = arc_piece(cur, *sec[1:])
        return [p], p.end, None   # last_ctrl after an arc is defined from the emitted chord (filled in by the caller)
    if k == "turn":
        r, ang = sec[1], sec[2]
        d = (cur[0] - last_ctrl[0], cur[1] - last_ctrl[1])
        ia = math.atan2(d[1], d[0]) + (0.5 * math.pi if ang < 0 else -0.5 * math.pi)
        p = arc_piece(cur, r, r, ia, ia + ang, 0.0)
        p.label = "turn"
        return [p], p.end, None
    if k == "param":
        rel, fidx, prm = sec[1], sec[2], sec[3]
        ref = cur if rel else (0.0, 0.0)
        fn = MENU[fidx]

        def f(t, fn=fn, prm=prm, ref=ref):
            x, y = fn(t, prm)
            return np.stack([np.asarray(x, dtype=float) + ref[0], np.asarray(y, dtype=float) + ref[1]], axis=1)
        e = f(np.array([1.0]))[0]
        s0 = f(np.array([0.0]))[0]
        pc = Piece("param", f, (float(s0[0]), float(s0[1])), (float(e[0]), float(e[1])), False, "parametric_%d" % fidx)
        return [pc], pc.end, None
    raise ValueError(k)


def polyline_dist(P, V):
    """distance of each point in P (n,2) to polyline V (m,2)"""
    A = V[:-1]
    B = V[1:]
    d = B - A
    l2 = (d ** 2).sum(axis=1)
    l2 = np.where(l2 == 0, 1e-300, l2)
    t = ((P[:, None, :] - A[None, :, :]) * d[None, :, :]).sum(axis=2) / l2[None, :]
    t = np.clip(t, 0, 1)
    proj = A[None, :, :] + t[:, :, None] * d[None, :, :]
    return np.sqrt(((P[:, None, :] - proj) ** 2).sum(axis=2)).min(axis=1)


def check_piece(piece, verts, tol, fail, stats):
    """verts: emitted vertices of this piece incl. its start vertex"""
    V = np.array(verts, dtype=float)
    if not np.isfinite(V).all():
        fail("%s: a vertex is not finite: %s" % (piece.label, [v for v in verts if not all(math.isfinite(c) for c in v)][:2]))
    sc = max(1.0, float(np.abs(V).max()), abs(piece.end[0]), abs(piece.end[1]))
    if math.hypot(V[-1][0] - piece.end[0], V[-1][1] - piece.end[1]) > 1e-9 * sc:
        fail("%s: the section ends at %s, the requested end point is %s" % (piece.label, tuple(V[-1]), piece.end))
    if math.hypot(V[0][0] - piece.start[0], V[0][1] - piece.start[1]) > max(1e-9 * sc, tol if piece.kind == "param" else 0):
        fail("%s: the section starts at %s, the current end point is %s" % (piece.label, tuple(V[0]), piece.start))
    if piece.kind == "bezier" and len(verts) == 2 and piece.label == "segment":
        return
    last_t = 0.0
    ordered = piece.judged or piece.kind in ("arc", "param")
    inner = verts[1:-1] if len(verts) > 2 else []
    if len(inner) > 48:
        # all vertices: coarse distance to a dense sampling of the curve; an evenly spread subset: the precise test
        C = piece.f(np.linspace(0, 1, 4001))
        far = cKDTree(C).query(np.array(inner, dtype=float))[0]
        step = float(np.hypot(*(C[1:] - C[:-1]).T).max())
        if float(far.max()) > 1e-6 * sc + 0.51 * step:
            fail("%s: vertex %s is %.3g away from the exact curve" % (piece.label, tuple(inner[int(far.argmax())]), float(far.max())))
        inner = [inner[int(i)] for i in np.unique(np.linspace(0, len(inner) - 1, 48).astype(int))]
    for v in inner:
        cs = piece.cands(v)
        good = [c for c in cs if c[1] <= 1e-8 * sc]
        if not good:
            fail("%s: vertex %s is %.3g away from the exact curve" % (piece.label, tuple(v), min(c[1] for c in cs)))
        if ordered:
            fwd = [c[0] for c in good if c[0] >= last_t - 1e-6]
            if not fwd:
                fail("%s: vertices do not advance along the curve (parameter %.6f after %.6f)" % (piece.label, max(c[0] for c in good), last_t))
            last_t = min(fwd)
    if piece.judged:
        t = np.linspace(0, 1, max(151, min(1201, 300000 // len(V))))   # bounded work: samples x vertices <= 3e5
        C = piece.f(t)
        dev = float(polyline_dist(C, V).max())
        stats.maximum("max_deviation_over_tolerance_" + piece.kind, round(dev / tol, 3))
        if dev > K * tol + 1e-9 * sc:
            fail("%s: the polyline strays %.4g from the exact curve, %.2f x the tolerance %g (%d vertices)" % (piece.label, dev, dev / tol, tol, len(verts)))


def sec_line(sec):
    k = sec[0]
    if k == "seg":
        return "curve seg c %d %d %s" % (1 if sec[1] else 0, len(sec[2]), " ".join(fl(v) for p in sec[2] for v in p))
    if k in ("hor", "ver"):
        return "curve %s c %d %d %s" % (k, 1 if sec[1] else 0, len(sec[2]), " ".join(fl(v) for v in sec[2]))
    if k in ("cubic", "cubic_smooth", "quad", "quad_smooth", "bezier"):
        return "curve %s c %d %d %s" % (k, 1 if sec[1] else 0, len(sec[2]), " ".join(fl(v) for p in sec[2] for v in p))
    if k == "arc":
        return "curve arc c %s" % " ".join(fl(v) for v in sec[1:])
    if k == "turn":
        return "curve turn c %s %s" % (fl(sec[1]), fl(sec[2]))
    if k == "param":
        return "curve param c %d %d %s" % (1 if sec[1] else 0, sec[2], " ".join(fl(v) for v in sec[3]))
    if k == "interp":
        n = len(sec[2])
        # no argument may be NULL (curve.hpp): unit tensions are passed explicitly
        return "curve interp c %d %d 1 1 %d %s %s T %s" % (1 if sec[1] else 0, 1 if sec[3] else 0, n, " ".join(fl(v) for p in sec[2] for v in p),
                                                           " ".join(["-"] * (n + 1)), " ".join([fl(1.0)] * (2 * (n + 1))))
    raise ValueError(k)


def commands_of(secs):
    """the same history as a commands() item list, or None when some section has no spelling"""
    items = []
    for s in secs:
        k = s[0]
        if k == "seg" and len(s[2]) == 1:
            items += ["c:l" if s[1] else "c:L"] + [fl(v) for v in s[2][0]]
        elif k in ("hor", "ver") and len(s[2]) == 1:
            items += ["c:" + ("h" if k == "hor" else "v") if s[1] else "c:" + ("H" if k == "hor" else "V"), fl(s[2][0])]
        elif k == "cubic" and len(s[2]) == 3:
            items += ["c:c" if s[1] else "c:C"] + [fl(v) for p in s[2] for v in p]
        elif k == "cubic_smooth" and len(s[2]) == 2:
            items += ["c:s" if s[1] else "c:S"] + [fl(v) for p in s[2] for v in p]
        elif k == "quad" and len(s[2]) == 2:
            items += ["c:q" if s[1] else "c:Q"] + [fl(v) for p in s[2] for v in p]
        elif k == "quad_smooth" and len(s[2]) == 1:
            items += ["c:t" if s[1] else "c:T"] + [fl(v) for p in s[2] for v in p]
        elif k == "turn":
            items += ["c:a", fl(s[1]), fl(s[2])]
        elif k == "arc" and s[1] == s[2] and s[5] == 0.0:
            items += ["c:A", fl(s[1]), fl(s[3]), fl(s[4])]
        elif k == "arc":
            items += ["c:E"] + [fl(v) for v in s[1:]]
        else:
            return None
    return items


def check_curve(ctx, case):
    tol = case["tol"]
    secs = case["sections"]
    lines = ["curve new c %s %s %s" % (fl(case["start"][0]), fl(case["start"][1]), fl(tol)), "curve dump c"]
    for s in secs:
        lines.append(sec_line(s))
        lines.append("curve dump c")
    items = commands_of(secs)
    if items is not None:
        lines.append("curve new d %s %s %s" % (fl(case["start"][0]), fl(case["start"][1]), fl(tol)))
        lines.append("curve commands d %d %s" % (len(items), " ".join(items)))
        lines.append("curve dump d".replace("dump d", "dump d"))
    lines = [l.replace("curve dump d", "curve dump d") for l in lines]
    outs = ctx.run(lines, case)
    dumps = outs[:len(secs) + 1]

    def fail(msg):
        raise Violation("tolerance %g, section %d %s: %s" % (tol, idx, secs[idx] if idx < len(secs) else "", msg), case, None, None, lines)
    idx = 0
    cur = tuple(case["start"])
    last_ctrl = cur   # Curve::init leaves last_ctrl zero-initialised; the first smooth section is only generated after another section
    labels = set()
    nt = False
    prev_kind = None
    for idx, s in enumerate(secs):
        before = dumps[idx]["pts"]
        after = dumps[idx + 1]["pts"]
        new = after[len(before) - 1:]
        k = s[0]
        if idx == 0 and k in ("cubic_smooth", "quad_smooth", "turn"):
            # continuation of nothing: the API gives these meaning only after another section
            ctx.stats.note(case, False, ["smooth_first_not_judged"])
            return
        if after[:len(before)] != before:
            fail("earlier vertices were modified")
        if k == "interp":
            rel, pts, cyc = s[1], s[2], s[3]
            P = [(cur[0] + p[0], cur[1] + p[1]) if rel else tuple(p) for p in pts]
            chain = [cur] + P + ([cur] if cyc else [])
            if any(math.hypot(a[0] - b[0], a[1] - b[1]) < 1e-6 for a, b in zip(chain[:-1], chain[1:])):
                # Hobby's algorithm divides by the knot distances: coincident consecutive knots are outside its domain
                ctx.stats.note(case, False, ["interp_coincident_knots_not_judged"])
                return
            V = np.array(new, dtype=float)
            if not np.isfinite(V).all():
                fail("interpolation produced a non-finite vertex")
            sc = max(1.0, float(np.abs(V).max()))
            j = 0
            for p in P:
                found = False
                while j < len(new):
                    if math.hypot(new[j][0] - p[0], new[j][1] - p[1]) <= 1e-9 * sc:
                        found = True
                        break
                    j += 1
                if not found:
                    fail("the interpolation does not pass through %s (in order)" % (p,))
            end = cur if cyc else P[-1]
            if math.hypot(new[-1][0] - end[0], new[-1][1] - end[1]) > 1e-9 * sc:
                fail("the interpolation ends at %s, expected %s" % (tuple(new[-1]), end))
            cur = end
            last_ctrl = tuple(dumps[idx + 1]["last_ctrl"])
            labels.add("interp")
            prev_kind = k
            continue
        pcs, ncur, nlc = pieces_of(s, cur, last_ctrl)
        if k == "param" and not s[1] and math.hypot(new[0][0] - pcs[0].start[0], new[0][1] - pcs[0].start[1]) > tol:
            # an absolute parametric curve that starts elsewhere is joined by a straight segment (curve.hpp)
            new = new[1:]
            labels.add("parametric_jump")
        # split the emitted vertices among the pieces of this call: each piece ends at its analytic end point
        # (a piece may pass through its own end point earlier, so every candidate split is tried before reporting)
        def split(pi_, start_i):
            pc = pcs[pi_]
            if pi_ == len(pcs) - 1:
                ends = [len(new) - 1]
            else:
                sc = max(1.0, abs(pc.end[0]), abs(pc.end[1]))
                ends = [j for j in range(start_i + 1, len(new)) if math.hypot(new[j][0] - pc.end[0], new[j][1] - pc.end[1]) <= 1e-9 * sc]
                if not ends:
                    fail("%s: no emitted vertex equals the end point %s of piece %d" % (pc.label, pc.end, pi_))
            first = None
            for end_i in ends[:6]:
                verts = new[start_i:end_i + 1]
                try:
                    if len(verts) < 2:
                        fail("%s: no vertex was appended" % pc.label)
                    check_piece(pc, verts, tol, fail, ctx.stats)
                    if pi_ + 1 < len(pcs):
                        split(pi_ + 1, end_i)
                    return
                except Violation as e:
                    first = first or e
            raise first
        split(0, 0)
        for pc in pcs:
            labels.add(pc.label)
            if pc.judged:
                labels.add("deviation_judged")
        cur = ncur
        if nlc is None:
            if k in ("arc", "turn"):
                # continuity after an arc is defined against its last emitted chord
                a, b = after[-2], after[-1]
                v = (a[0] - b[0], a[1] - b[1])
                l = math.hypot(*v)
                rr = 0.5 * (s[1] + s[2]) if k == "arc" else s[1]
                last_ctrl = (b[0] + v[0] / l * rr, b[1] + v[1] / l * rr) if l > 0 else tuple(b)
            else:
                last_ctrl = tuple(dumps[idx + 1]["last_ctrl"])
        else:
            last_ctrl = nlc
        if k in ("cubic_smooth", "quad_smooth", "turn") and prev_kind not in ("seg", "hor", "ver"):
            nt = True
        if k == "arc" and max(s[1], s[2]) / min(s[1], s[2]) >= 3:
            nt = True
        prev_kind = k
    if items is not None:
        d = outs[-1]
        c = dumps[-1]
        if outs[-2]["consumed"] != len(items):
            idx = len(secs)
            fail("commands() consumed %d of %d items" % (outs[-2]["consumed"], len(items)))
        if len(d["pts"]) != len(c["pts"]) or any(abs(a[0] - b[0]) > 1e-12 * max(1, abs(a[0])) or abs(a[1] - b[1]) > 1e-12 * max(1, abs(a[1])) for a, b in zip(d["pts"], c["pts"])):
            idx = len(secs)
            fail("the commands() spelling %s produces %d vertices ending at %s, the calls produce %d ending at %s" %
                 (items, len(d["pts"]), d["pts"][-1], len(c["pts"]), c["pts"][-1]))
        labels.add("commands_spelling")
    feat = 20.0
    if tol >= 0.1 * feat / 10:
        nt = True
    ctx.stats.note(case, nt, sorted(labels) + ["tol_%g" % tol])


# ---------------------------------------------------------------------------- primitives
@st.composite
def prim_case(draw):
    k = draw(st.sampled_from(["ellipse", "ellipse", "ellipse", "racetrack", "fillet", "rectangle", "cross", "regular"]))
    tol = draw(st.sampled_from([1e-2, 1e-3, 1e-4, 0.1, 0.5]))
    c = [draw(coord), draw(coord)]
    if k == "ellipse":
        rx = draw(st.sampled_from([1.0, 2.0, 5.0, 10.0, 20.0]))
        ry = draw(st.sampled_from([rx, rx, rx / 2, rx / 3, rx / 10, rx / 20]))
        inner = draw(st.sampled_from([0.0, 0.0, 0.5, 0.8]))
        # the inner ellipse may be elongated differently from (even across) the outer one
        inner_y = inner if (inner == 0.0 or draw(st.booleans())) else draw(st.sampled_from([0.1, 0.5, 0.9]))
        mode = draw(st.sampled_from(["full", "full", "slice", "slice"]))
        a0 = draw(st.sampled_from([0.0, 0.5, -1.0, math.pi / 2, 3.0]))
        a1 = a0 if mode == "full" else a0 + draw(st.sampled_from([0.1745, 0.5, 1.0, math.pi / 2, math.pi, 4.0, -0.3, -2.0]))
        return {"kind": "prim", "prim": k, "c": c, "rx": rx, "ry": ry, "irx": rx * inner, "iry": ry * inner_y, "a0": a0, "a1": a1, "tol": tol}
    if k == "racetrack":
        r = draw(st.sampled_from([1.0, 3.0, 10.0]))
        return {"kind": "prim", "prim": k, "c": c, "L": draw(st.sampled_from([0.0, 2.0, 15.0])), "r": r, "ir": r * draw(st.sampled_from([0.0, 0.5])),
                "vertical": draw(st.booleans()), "tol": tol}
    if k == "fillet":
        w, h = draw(st.sampled_from([2.0, 6.0, 10.0, 30.0])), draw(st.sampled_from([2.0, 6.0, 10.0, 30.0]))
        radii = draw(st.lists(st.sampled_from([0.5, 1.0, 2.0, 1.9, 3.0, 5.0]), min_size=1, max_size=4))   # incl. radii beyond half an edge
        return {"kind": "prim", "prim": k, "c": c, "w": w, "h": h, "radii": radii, "tol": tol}
    if k == "rectangle":
        return {"kind": "prim", "prim": k, "c": c, "d": [draw(coord), draw(coord)], "tol": tol}
    if k == "cross":
        return {"kind": "prim", "prim": k, "c": c, "full": draw(st.sampled_from([4.0, 10.0])), "arm": draw(st.sampled_from([1.0, 2.0, 3.5])), "tol": tol}
    return {"kind": "prim", "prim": k, "c": c, "side": draw(st.sampled_from([1.0, 3.0])), "n": draw(st.integers(3, 12)), "rot": draw(st.sampled_from([0.0, 0.3, -1.0])), "tol": tol}


def ellipse_arc_dev(V, cx, cy, rx, ry, t0, t1):
    t = np.linspace(0, 1, 1201)
    th = t0 + (t1 - t0) * t
    C = np.stack([cx + rx * np.cos(th), cy + ry * np.sin(th)], axis=1)
    return float(polyline_dist(C, np.array(V, dtype=float)).max())


def check_prim(ctx, case):
    k = case["prim"]
    tol = case["tol"]
    c = case["c"]
    if k == "ellipse":
        line = "poly ellipse p %s %s %s %s %s %s %s %s %s 1 2" % tuple(fl(v) for v in (c[0], c[1], case["rx"], case["ry"], case["irx"], case["iry"], case["a0"], case["a1"], tol))
    elif k == "racetrack":
        line = "poly racetrack p %s %s %s %s %s %d %s 1 2" % (fl(c[0]), fl(c[1]), fl(case["L"]), fl(case["r"]), fl(case["ir"]), 1 if case["vertical"] else 0, fl(tol))
    elif k == "fillet":
        w, h = case["w"], case["h"]
        line = "poly new p 1 2 4 %s" % " ".join(fl(v) for v in (c[0], c[1], c[0] + w, c[1], c[0] + w, c[1] + h, c[0], c[1] + h))
    elif k == "rectangle":
        line = "poly rect p %s %s %s %s 1 2" % (fl(c[0]), fl(c[1]), fl(case["d"][0]), fl(case["d"][1]))
    elif k == "cross":
        line = "poly cross p %s %s %s %s 1 2" % (fl(c[0]), fl(c[1]), fl(case["full"]), fl(case["arm"]))
    else:
        line = "poly regular p %s %s %s %d %s 1 2" % (fl(c[0]), fl(c[1]), fl(case["side"]), case["n"], fl(case["rot"]))
    lines = [line]
    if k == "fillet":
        lines.append("poly fillet p %d %s %s" % (len(case["radii"]), " ".join(fl(r) for r in case["radii"]), fl(tol)))
    lines.append("dump poly p")
    outs = ctx.run(lines, case)
    V = [tuple(p) for p in outs[-1]["poly"]["pts"]]

    def fail(msg):
        raise Violation("%s (tolerance %g): %s" % (k, tol, msg), case, None, V[:12], lines)
    if not all(math.isfinite(v) for p in V for v in p):
        fail("a vertex is not finite")
    sc = max([1.0] + [abs(v) for p in V for v in p])
    nt = False
    labels = ["prim_" + k]
    if k == "rectangle":
        x0, y0, x1, y1 = c[0], c[1], case["d"][0], case["d"][1]
        want = {(x0, y0), (x1, y0), (x1, y1), (x0, y1)}
        if set(V) != want or len(V) != 4:
            fail("vertices %s, expected the four corners %s" % (V, sorted(want)))
    elif k == "cross":
        f, a = case["full"] / 2, case["arm"] / 2
        want = [(c[0] + x, c[1] + y) for x, y in ((-f, -a), (-a, -a), (-a, -f), (a, -f), (a, -a), (f, -a), (f, a), (a, a), (a, f), (-a, f), (-a, a), (-f, a))]
        if len(V) != 12 or any(min(math.hypot(v[0] - w[0], v[1] - w[1]) for w in want) > 1e-12 * sc for v in V) or \
                any(min(math.hypot(v[0] - w[0], v[1] - w[1]) for v in V) > 1e-12 * sc for w in want):
            fail("vertices %s are not the 12 documented corners %s" % (V, want))
    elif k == "regular":
        n, side = case["n"], case["side"]
        R = side / (2 * math.sin(math.pi / n))
        if len(V) != n:
            fail("%d vertices for %d sides" % (len(V), n))
        for i in range(n):
            a, b = V[i], V[(i + 1) % n]
            if abs(math.hypot(a[0] - b[0], a[1] - b[1]) - side) > 1e-9 * sc or abs(math.hypot(a[0] - c[0], a[1] - c[1]) - R) > 1e-9 * sc:
                fail("side %d has length %r (expected %r) or its vertex is not on the circumscribed circle of radius %r" % (i, math.hypot(a[0] - b[0], a[1] - b[1]), side, R))
    elif k == "ellipse":
        rx, ry, irx, iry, a0, a1 = case["rx"], case["ry"], case["irx"], case["iry"], case["a0"], case["a1"]
        full = a0 == a1
        ring = irx > 0 and iry > 0
        # every vertex lies on the outer ellipse, the inner ellipse or is the centre (plain slice)
        outer, inner_v = [], []
        for v in V:
            x, y = v[0] - c[0], v[1] - c[1]
            fo = (x / rx) ** 2 + (y / ry) ** 2
            if abs(fo - 1) < 1e-9:
                outer.append(v)
            elif ring and abs((x / irx) ** 2 + (y / iry) ** 2 - 1) < 1e-9:
                inner_v.append(v)
            elif not ring and not full and abs(x) < 1e-12 * sc and abs(y) < 1e-12 * sc:
                pass
            else:
                fail("vertex %s is neither on the outer nor on the inner ellipse" % (v,))
        t0, t1 = (0.0, 2 * math.pi) if full else (ell_param(a0, rx, ry), ell_param(a1, rx, ry))
        path = outer + ([outer[0]] if full else [])
        dev = ellipse_arc_dev(path, c[0], c[1], rx, ry, t0, t1)
        ctx.stats.maximum("max_deviation_over_tolerance_ellipse", round(dev / tol, 3))
        if dev > K * tol + 1e-9 * sc:
            fail("the outer boundary strays %.4g from the ellipse arc (%.2f x tolerance) with %d vertices" % (dev, dev / tol, len(outer)))
        if ring:
            t0i, t1i = (0.0, 2 * math.pi) if full else (ell_param(a0, irx, iry), ell_param(a1, irx, iry))
            pin = inner_v + ([inner_v[0]] if full else [])
            dev = ellipse_arc_dev(pin, c[0], c[1], irx, iry, t0i, t1i)
            if dev > K * tol + 1e-9 * sc:
                fail("the inner boundary strays %.4g from the ellipse arc (%.2f x tolerance)" % (dev, dev / tol))
        nt = max(rx, ry) / min(rx, ry) >= 3 or tol >= 0.1
        labels.append("ellipse_%s%s" % ("full" if full else "slice", "_ring" if ring else ""))
    elif k == "racetrack":
        L, r, ir, vert = case["L"], case["r"], case["ir"], case["vertical"]
        # every vertex is at distance r (or ir) from the centre segment
        a = (c[0], c[1] - L / 2) if vert else (c[0] - L / 2, c[1])
        b = (c[0], c[1] + L / 2) if vert else (c[0] + L / 2, c[1])
        import flatmodel as fm
        for v in V:
            d = fm.seg_dist(v, a, b)
            if abs(d - r) > 1e-9 * sc and not (ir > 0 and abs(d - ir) > -1 and abs(d - ir) < 1e-9 * sc):
                fail("vertex %s is %.6g from the centre segment, neither the radius %g nor the inner radius %g" % (v, d, r, ir))
        outer = [v for v in V if abs(fm.seg_dist(v, a, b) - r) <= 1e-9 * sc]
        # deviation of the two semicircles: maximum sagitta between consecutive outer vertices on the same cap
        worst = 0.0
        for i in range(len(outer)):
            p, q = outer[i], outer[(i + 1) % len(outer)]
            m = ((p[0] + q[0]) / 2, (p[1] + q[1]) / 2)
            worst = max(worst, r - fm.seg_dist(m, a, b))
        ctx.stats.maximum("max_deviation_over_tolerance_racetrack", round(worst / tol, 3))
        if worst > K * tol + 1e-9 * sc:
            fail("the outline cuts %.4g inside the exact racetrack (%.2f x tolerance)" % (worst, worst / tol))
        nt = tol >= 0.1
    else:  # fillet
        w, h = case["w"], case["h"]
        radii = case["radii"]
        import flatmodel as fm
        corners = [(c[0], c[1]), (c[0] + w, c[1]), (c[0] + w, c[1] + h), (c[0], c[1] + h)]
        # documented clamp (polygon.hpp): a radius larger than half the shortest adjacent edge is reduced to that size;
        # the implementation leaves a tolerance-sized straight piece, so the reduced radius lies in [(e - tol)/2, e/2]
        short = min(w, h)
        eff = []
        for i in range(4):
            r = radii[i % len(radii)]
            if r > 0.5 * (short - tol):
                eff.append((0.5 * (short - tol), 0.5 * short, True))
                labels.append("fillet_radius_clamped")
            else:
                eff.append((r, r, False))
        # every vertex lies inside the rectangle, on an edge or on a circle tangent to both edges of its corner whose
        # radius is the (clamped) requested one
        used = {}
        for v in V:
            if not (c[0] - 1e-9 * sc <= v[0] <= c[0] + w + 1e-9 * sc and c[1] - 1e-9 * sc <= v[1] <= c[1] + h + 1e-9 * sc):
                fail("vertex %s lies outside the original rectangle" % (v,))
            on_edge = abs(v[0] - c[0]) < 1e-9 * sc or abs(v[0] - c[0] - w) < 1e-9 * sc or abs(v[1] - c[1]) < 1e-9 * sc or abs(v[1] - c[1] - h) < 1e-9 * sc
            if on_edge:
                continue
            ok = False
            for i, cn in enumerate(corners):
                a, b = abs(v[0] - cn[0]), abs(v[1] - cn[1])      # distances from the two edges of this corner
                rr = (a + b) + math.sqrt(2 * a * b)                # radius of the tangent circle through v (near arc)
                lo, hi, _ = eff[i]
                if lo - 1e-9 * sc <= rr <= hi + 1e-9 * sc and a <= rr + 1e-9 * sc and b <= rr + 1e-9 * sc:
                    if i in used and abs(used[i] - rr) > 1e-9 * sc:
                        fail("corner %d is rounded with two different radii (%r and %r)" % (i, used[i], rr))
                    used[i] = rr
                    ok = True
            if not ok:
                fail("vertex %s is neither on an edge nor on a fillet arc of the requested (or clamped) radius; radii %s, clamp band %s" % (v, radii, [(round(e[0], 6), round(e[1], 6)) for e in eff]))
        Vc = np.array(V + [V[0]], dtype=float)
        for i, cn in enumerate(corners):
            r = used.get(i, eff[i][0])
            sx, sy = (1 if cn[0] == c[0] else -1), (1 if cn[1] == c[1] else -1)
            th = np.linspace(0, math.pi / 2, 201)
            C = np.stack([cn[0] + sx * r * (1 - np.cos(th)), cn[1] + sy * r * (1 - np.sin(th))], axis=1)
            dev = float(polyline_dist(C, Vc).max())
            ctx.stats.maximum("max_deviation_over_tolerance_fillet", round(dev / tol, 3))
            if dev > K_FILLET * tol + 1e-9 * sc:
                fail("corner %d: the outline strays %.4g from the fillet arc of radius %g (%.2f x tolerance)" % (i, dev, r, dev / tol))
        nt = tol >= 0.1
    ctx.stats.note(case, nt, labels)


def check(ctx, case):
    if case["kind"] == "curve":
        return check_curve(ctx, case)
    return check_prim(ctx, case)


def run_worker(ctx):
    q = ctx.tier == "quick"
    vs = []
    for name, strat, total in (("curve", curve_case(not q), 8000 if q else 80000), ("prim", prim_case(), 3000 if q else 20000)):
        v = ctx.hypothesis(check, strat, ctx.share(total), name)
        if v:
            vs.append(v)
    return vs


def replay(ctx, test, case, ignore_known=False):
    return check(ctx, case)
