"""C18 - a truncated GDSII file is never read as complete and never crashes a reader (fault enumeration)."""
import os

from hypothesis import strategies as st

from common import Violation, WARNINGS, fl
import gdsref
import layoutgen as lg
import prop_c03

LEVEL = "fault_enumeration"
RULE = ("files from three generators - gdstk-written GDSII (layoutgen libraries: all element kinds, properties, AREFs, >= 2 cells "
        "with references between them so that SNAME records exist), GDSII serialised by my own encoder with non-default "
        "choice points (multi-record XY, optional records), gdstk-written OASIS under drawn options (validation signature "
        "CRC32/checksum32/none, deflate level, detection flags, standard properties); for EVERY prefix length k = 0..n-1 of "
        "every file each reader in scope is run in a forked child under ASan with a per-call watchdog and a count of "
        "/proc/self/fd before and after. Oracle (DESIGN 6.2): read_gds/read_rawcells/gds_info report an error and return "
        "nothing; gds_units/gds_timestamp report an error or exactly the complete file's values; oas_precision returns; "
        "oas_validate never reports (true, NoError) for a signed file; no signal, no sanitizer report, no hang, no new "
        "descriptor; 50 repeated calls in one process leave the descriptor count unchanged; read_gds, read_rawcells, "
        "gds_timestamp and oas_validate are also run with error_code = NULL (documented as optional): same outcome table "
        "without the code (no cells returned; true only with a zero signature). An evaluation is one (file, k, "
        "reader) triple; it is non-trivial when the cut falls inside a record (GDSII) / inside the END record or a CBLOCK "
        "(OASIS); distinct by (file hash, k, reader)")
ASSUMPTIONS = ["exhaustive per file (every prefix), sampled over files", "the full OASIS loader read_oas is outside the claim (DESIGN 6.3)",
               "memory leaks are not judged; descriptors are"]

# "*_null": the same reader called with error_code = NULL (library.hpp: "If not NULL, any errors will be reported through
# error_code"; docs/cpp/layout.cpp calls read_rawcells that way): the error paths must not write through the pointer
GDS_READERS = ["read_gds", "read_rawcells", "gds_info", "gds_units", "gds_timestamp", "read_gds_null", "read_rawcells_null", "gds_timestamp_null"]
OAS_READERS = ["oas_precision", "oas_validate", "oas_validate_null"]


@st.composite
def case_strategy(draw):
    kind = draw(st.sampled_from(["gds_gdstk", "gds_gdstk", "gds_encoded", "oas", "oas"]))
    c = {"kind": kind}
    if kind == "gds_gdstk":
        c["lib"] = draw(lg.library(ncells=(2, 4), size=300, origin_mag=0, path_kinds=("simple_fp", "outline_fp"), elements=(1, 3)))
        c["max_points"] = draw(st.sampled_from([0, 0, 6]))
    elif kind == "gds_encoded":
        lc = draw(prop_c03.layout_case())
        c["layout"], c["choices"] = lc["layout"], lc["choices"]
    else:
        c["lib"] = draw(lg.library(ncells=(1, 3), size=300, origin_mag=0, path_kinds=("simple_fp",), label_full=False, allow_name_refs=False,
                                   nonneg_width=True, elements=(1, 3), rep_kinds=["rect", "regular", "explicit"], props=lambda: st.just([])))
        c["flags"] = draw(st.sampled_from([0, 0x0001 | 0x0002, 0x0040, 0x0080, 0x003C | 0x0040, 0x003F | 0x0080, 0x0020 | 0x0040]))
        c["level"] = draw(st.sampled_from([0, 0, 6, 9]))
    return c


def make_file(ctx, case):
    path = ctx.path("full." + ("oas" if case["kind"] == "oas" else "gds"))
    if case["kind"] == "gds_encoded":
        with open(path, "wb") as fh:
            fh.write(gdsref.encode(case["layout"], case["choices"]))
        return path, []
    lines, _ = lg.build_script(case["lib"], "L", queries=False)
    if case["kind"] == "oas":
        lines.append("io write_oas L %s 0 %d %d" % (path, case["level"], case["flags"]))
    else:
        lines.append("io write_gds L %s %d" % (path, case["max_points"]))
    outs = ctx.run(lines, case)
    if outs[-1]["err"] not in WARNINGS:
        raise Violation("writing the source file failed with error %d" % outs[-1]["err"], case, 0, outs[-1]["err"], lines)
    return path, lines


def judge(reader, row, full, signed):
    """row = [k, status, err, a, b, fd_delta]; full = result on the complete file; returns None or a message"""
    k, status, err, a, b, fdd = row
    if status != 0:
        return "%s on the %d-byte prefix: the process died with %s" % (reader, k, "the watchdog (hang)" if status == 14 else "signal/exit %d" % status)
    if fdd != 0:
        return "%s on the %d-byte prefix left %d descriptor(s) open" % (reader, k, fdd)
    if reader in ("read_gds", "read_rawcells", "gds_info"):
        if err in WARNINGS:
            return "%s on the %d-byte prefix reported error code %d (success or a mere warning) for a truncated file" % (reader, k, err)
        if reader != "gds_info" and a != 0:
            return "%s on the %d-byte prefix returned %d cell(s) together with error %d" % (reader, k, a, err)
    elif reader in ("gds_units", "gds_timestamp"):
        if err == 0 and (a, b) != (full[1], full[2]):
            return "%s on the %d-byte prefix returned NoError with values %r, the complete file has %r" % (reader, k, (a, b), (full[1], full[2]))
    elif reader in ("read_gds_null", "read_rawcells_null"):
        if a != 0:
            return "%s on the %d-byte prefix returned %d cell(s): a shortened layout with no way for the caller to see an error" % (reader, k, a)
    elif reader == "oas_validate_null":
        # documented: true also means "the file has no validation data", and then the signature is set to zero; without the
        # error code a matching signature is true together with a computed (non-zero) signature
        if signed and a == 1 and b != 0:
            return "oas_validate (error_code = NULL) on the %d-byte prefix of a signed file reports a matching signature %d" % (k, b)
    elif reader == "oas_validate":
        if signed and err == 0 and a == 1:
            return "oas_validate on the %d-byte prefix of a signed file reports a matching signature (true, NoError)" % k
    return None


def boundaries(case, data):
    """set of prefix lengths that are record boundaries (GDSII); for OASIS the start of the END record"""
    if case["kind"] == "oas":
        return {len(data) - 256} if len(data) >= 256 else set()
    b = set()
    try:
        for pos, rtype, payload in gdsref.records(data):
            b.add(pos)
    except gdsref.FormatError:
        pass
    return b


def check(ctx, case):
    only = case.get("only")
    path, lines = make_file(ctx, case)
    with open(path, "rb") as fh:
        data = fh.read()
    n = len(data)
    readers = OAS_READERS if case["kind"] == "oas" else GDS_READERS
    signed = case["kind"] == "oas" and (case["flags"] & 0x00C0) != 0
    tmp = ctx.path("prefix.bin")
    bset = boundaries(case, data)
    import zlib
    fhash = "%08x" % zlib.crc32(data)
    for reader in readers:
        if only and only[0] != reader:
            continue
        k0, k1 = (only[1], only[1] + 1) if (only and only[1] >= 0) else (0, n)   # only = [reader, -1]: every prefix, that reader
        # result on the complete file (reference values for gds_units / gds_timestamp)
        outs = ctx.run(lines[:0] + ["trunc scan %s %s %s %d %d 1 10" % (reader, path, tmp, n, n + 1), "trunc scan %s %s %s %d %d 1 10" % (reader, path, tmp, k0, k1)],
                       case, timeout=900, hang_inconclusive=True)   # the outer guard; hangs are judged per call in the child
        full_rows = outs[0]["rows"]
        if not full_rows or full_rows[0][1] != 0:
            raise Violation("%s on the COMPLETE file did not return normally: %s" % (reader, full_rows), dict(case, only=[reader, n]), None, full_rows, lines)
        full = full_rows[0][2:]
        if reader in ("read_gds", "gds_info", "gds_units", "gds_timestamp", "read_rawcells") and full[0] not in WARNINGS:
            raise Violation("%s on the complete file returned error %d" % (reader, full[0]), dict(case, only=[reader, n]), 0, full[0], lines)
        if reader == "oas_validate" and signed and not (full[1] == 1 and full[0] == 0):
            raise Violation("oas_validate on the complete signed file: ok=%s err=%d" % (full[1], full[0]), dict(case, only=[reader, n]), [1, 0], full, lines)
        rows = outs[1]["rows"]
        seen = set()
        for row in rows:
            seen.add(row[0])
            msg = judge(reader, row, full, signed)
            if msg:
                raise Violation(msg, dict(case, only=[reader, row[0]]), None, row, lines)
            nt = row[0] not in bset
            ctx.stats.note("%s:%s:%d" % (fhash, reader, row[0]), nt, ["reader_" + reader, "kind_" + case["kind"]])
        if len(seen) != k1 - k0:
            raise Violation("%s: %d of %d prefixes were not reported" % (reader, k1 - k0 - len(seen), k1 - k0), case, k1 - k0, len(seen), lines)
        if not only:
            # repeated-call clause on a handful of prefixes (and the complete file)
            for k in sorted({0, 1, n // 3, n // 2, max(0, n - 5), n}):
                pk = ctx.path("rep.bin")
                o = ctx.run(["trunc prefix %s %s %d" % (path, pk, k), "trunc repeat %s %s 50" % (reader, pk)], case, timeout=300)
                if o[0]["fd_delta"] != 0:
                    raise Violation("50 calls of %s on the %d-byte prefix left %d descriptors open" % (reader, k, o[0]["fd_delta"]),
                                    dict(case, only=[reader, k], repeat=True), 0, o[0]["fd_delta"], lines)
                ctx.stats.count("repeated_call_checks")
    ctx.stats.count("files")
    ctx.stats.count("bytes_truncated", n)


def replay_check(ctx, case):
    if case.get("repeat"):
        path, lines = make_file(ctx, case)
        pk = ctx.path("rep.bin")
        o = ctx.run(["trunc prefix %s %s %d" % (path, pk, case["only"][1]), "trunc repeat %s %s 50" % (case["only"][0], pk)], case, timeout=300)
        if o[0]["fd_delta"] != 0:
            raise Violation("50 calls of %s on the %d-byte prefix left %d descriptors open" % (case["only"][0], case["only"][1], o[0]["fd_delta"]), case)
        return
    return check(ctx, case)


def run_worker(ctx):
    n = 24 if ctx.tier == "quick" else 320
    # no shrinking of the file: the minimal unit is (reader, prefix length), recorded in the case as "only"
    v = ctx.hypothesis(check, case_strategy(), ctx.share(n), "truncation", shrink=False)
    return [v] if v else []


def replay(ctx, test, case, ignore_known=False):
    return replay_check(ctx, case)
