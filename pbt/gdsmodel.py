"""Expected result of saving an abstract library (layoutgen) as GDSII and loading it back, and the comparison of a
driver dump against it.  Used by C01 (round trip), C03 direction B, C17.  Lengths in grid units."""
import math

import geomkit as gk
import layoutgen as lg
import repgen

TOL_INT = 1e-4      # a reloaded coordinate must be this close to an integer number of grid units
TOL_ROUND = 0.5 + 1e-4


class Mismatch(Exception):
    pass


def rep_offsets(rep):
    return repgen.offsets(rep) if rep is not None else [(0.0, 0.0)]


def lattice_on_grid(rep):
    if rep is None:
        return True
    vals = []
    for k in ("spacing", "v1", "v2"):
        if k in rep:
            vals += rep[k]
    for o in rep.get("offsets", []):
        vals += o
    vals += rep.get("coords", [])
    return all(abs(v - round(v)) < 1e-9 for v in vals)


def general_position(pts):
    """consecutive segment directions of the polyline are between 6 and 174 degrees apart"""
    for i in range(len(pts) - 2):
        ax, ay = pts[i + 1][0] - pts[i][0], pts[i + 1][1] - pts[i][1]
        bx, by = pts[i + 2][0] - pts[i + 1][0], pts[i + 2][1] - pts[i + 1][1]
        la, lb = math.hypot(ax, ay), math.hypot(bx, by)
        if la == 0 or lb == 0 or abs(ax * by - ay * bx) < 0.1 * la * lb:
            return False
    return len(pts) >= 2 and all(pts[i] != pts[i + 1] for i in range(len(pts) - 1))


def offset_polyline(pts, off):
    """centre line of a path element: each spine segment displaced by off along its left normal, consecutive displaced lines
    joined at their intersection"""
    segs = []
    for i in range(len(pts) - 1):
        dx, dy = pts[i + 1][0] - pts[i][0], pts[i + 1][1] - pts[i][1]
        L = math.hypot(dx, dy)
        nx, ny = -dy / L, dx / L
        segs.append(((pts[i][0] + nx * off, pts[i][1] + ny * off), (pts[i + 1][0] + nx * off, pts[i + 1][1] + ny * off), (dx / L, dy / L)))
    out = [segs[0][0]]
    for (a0, a1, ta), (b0, b1, tb) in zip(segs, segs[1:]):
        cr = ta[0] * tb[1] - ta[1] * tb[0]
        u = ((b0[0] - a1[0]) * tb[1] - (b0[1] - a1[1]) * tb[0]) / cr
        out.append((a1[0] + u * ta[0], a1[1] + u * ta[1]))
    out.append(segs[-1][1])
    return out


def expected_cells(lib, max_points, path_queries):
    """per cell: dict with expected element lists.  path_queries: {(ci, pi): driver output of 'center' or 'topoly'} for the
    ORIGINAL paths (user units), the centre lines / outlines whose transport is judged here."""
    g = lib["precision"] / lib["unit"]
    out = []
    for ci, c in enumerate(lib["cells"]):
        if c.get("outside"):
            continue
        polys, fract, paths, labels, refs = [], [], [], [], []

        def add_poly(tag, pts, props, off):
            p = {"tag": tag, "pts": [(x + off[0], y + off[1]) for x, y in pts], "props": props}
            if max_points > 4 and len(pts) > max_points:
                fract.append(p)
            else:
                polys.append(p)
        for p in c["polys"]:
            for off in rep_offsets(p["rep"]):
                add_poly(p["tag"], p["pts"], p["props"], off)
        for pi, p in enumerate(c["paths"]):
            q = path_queries[(ci, pi)]
            if p["simple"]:
                for e, cen in zip(p["els"], q["centers"]):
                    spine = [(x / g, y / g) for x, y in cen["pts"]]
                    if p["kind"] == "fp" and e.get("off"):
                        spine = offset_polyline(p["spine"], e["off"])      # independent of element_center
                    ps = abs(p.get("prescale") or 1.0)      # a scaled path: widths follow if scale_width, extensions always
                    for off in rep_offsets(p["rep"]):
                        paths.append({"tag": e["tag"], "spine": [(x + off[0], y + off[1]) for x, y in spine], "w": e["w"] * (ps if p["scale_width"] else 1.0),
                                      "end": e["end"], "ext": [e["ext"][0] * ps, e["ext"][1] * ps], "scale_width": p["scale_width"], "props": p["props"]})
            else:
                for op in q["result"]:
                    pts = [(x / g, y / g) for x, y in op["pts"]]
                    if len(pts) < 3:
                        continue
                    # to_polygons copies the path's repetition and properties onto each polygon
                    for off in rep_offsets(p["rep"]):
                        add_poly(op["tag"], pts, p["props"], off)
        for l in c["labels"]:
            for off in rep_offsets(l["rep"]):
                labels.append({"text": l["text"], "tag": l["tag"], "origin": (l["origin"][0] + off[0], l["origin"][1] + off[1]),
                               "anchor": l["anchor"], "rot": l["rot"], "mag": l["mag"], "xr": l["xr"], "props": l["props"]})
        for r in c["refs"]:
            big = r["rep"] is not None and len(rep_offsets(r["rep"])) > 2000
            refs.append({"target": lg.ref_target_name(lib, r), "origin": tuple(r["origin"]), "rot": r["rot"], "mag": r["mag"], "xr": r["xr"],
                         "props": r["props"], "rep": r["rep"], "big": big,
                         "resolved": r["kind"] in ("cell", "name") and not lib["cells"][r["target"]].get("outside") if r["kind"] != "dangling" else False})
        out.append({"name": c["name"], "polys": polys, "fract": fract, "paths": paths, "labels": labels, "refs": refs})
    return out


def grid_pts(pts, g):
    return [(x / g, y / g) for x, y in pts]


def check_int(v, what):
    if abs(v - round(v)) > TOL_INT * max(1.0, abs(v) * 1e-6):
        raise Mismatch("%s = %r grid units is not on the grid" % (what, v))


def pts_match(exp, got, tol=TOL_ROUND):
    if len(exp) != len(got):
        return False
    for (ex, ey), (gx, gy) in zip(exp, got):
        if abs(ex - gx) > tol or abs(ey - gy) > tol:
            return False
    return True


def angle_close(a, b):
    return abs(math.remainder(a - b, 2 * math.pi)) <= 1e-11 * max(1.0, abs(a))


def rel_close(a, b, tol=1e-12):
    return abs(a - b) <= tol * max(abs(a), abs(b), 1e-300)


def props_equal(exp, dumped):
    got = lg.dump_props_gds(dumped)
    return sorted(map(repr, [list(p) for p in exp])) == sorted(map(repr, got))


def take(pool, pred, what):
    for i, x in enumerate(pool):
        if pred(x):
            return pool.pop(i)
    raise Mismatch(what)


def compare_cell(exp, got, g, max_points, stats=None):
    """exp: expected_cells entry; got: driver dump of the reloaded cell (user units)"""
    # ---- polygons
    pool = []
    for p in got["polygons"]:
        pts = grid_pts(p["pts"], g)
        for x, y in pts:
            check_int(x, "polygon vertex")
            check_int(y, "polygon vertex")
        if p["rep"] is not None:
            raise Mismatch("a reloaded polygon carries a repetition (GDSII has none)")
        pool.append({"tag": p["tag"], "pts": pts, "props": p["props"]})
    for e in exp["polys"]:
        take(pool, lambda x: x["tag"] == e["tag"] and pts_match(e["pts"], x["pts"]) and props_equal(e["props"], x["props"]),
             "polygon tag %s with %d vertices starting at %s not found after reload (or moved by more than half a grid unit / lost its properties)"
             % (e["tag"], len(e["pts"]), e["pts"][0]))
    # fractured originals: the leftover polygons must partition them
    if exp["fract"]:
        tags = {tuple(e["tag"]) for e in exp["fract"]}
        for t in tags:
            originals = [[(lg.rnd(x), lg.rnd(y)) for x, y in e["pts"]] for e in exp["fract"] if tuple(e["tag"]) == t]
            propsets = [e["props"] for e in exp["fract"] if tuple(e["tag"]) == t]
            pieces = [x for x in pool if tuple(x["tag"]) == t]
            pool[:] = [x for x in pool if tuple(x["tag"]) != t]
            if not pieces:
                raise Mismatch("over-limit polygon(s) with tag %s vanished" % (t,))
            ip = []
            for x in pieces:
                if len(x["pts"]) > max_points:
                    raise Mismatch("a BOUNDARY has %d vertices, limit %d" % (len(x["pts"]), max_points))
                if not any(props_equal(ps, x["props"]) for ps in propsets):
                    raise Mismatch("a fractured piece lost the polygon's properties")
                ip.append([(int(round(a)), int(round(b))) for a, b in x["pts"]])
            cands = gk.candidate_samples(originals + ip[:30], grid=5)
            if len(cands) > 250:
                step = len(cands) / 250.0
                cands = [cands[int(i * step)] for i in range(250)]
            for (x, y) in gk.decidable(originals + ip, cands, band=2):
                want = sum(1 for o in originals if len(o) >= 3 and gk.winding(o, x, y) != 0)
                have = sum(1 for q in ip if len(q) >= 3 and gk.winding(q, x, y) != 0)
                if want != have:
                    raise Mismatch("after fracturing to %d vertices the point %s is covered %d times, originally %d" % (max_points, (x, y), have, want))
            if stats is not None:
                stats.count("fractured_groups")
    if pool:
        raise Mismatch("%d unexpected polygon(s) after reload, e.g. tag %s %s" % (len(pool), pool[0]["tag"], pool[0]["pts"][:4]))
    # ---- paths
    pool = []
    for f in got["flexpaths"]:
        if len(f["elements"]) != 1:
            raise Mismatch("a reloaded path has %d elements" % len(f["elements"]))
        e = f["elements"][0]
        spine = grid_pts(f["spine"], g)
        for x, y in spine:
            check_int(x, "path vertex")
            check_int(y, "path vertex")
        if not f["simple"]:
            raise Mismatch("a reloaded PATH is not flagged simple_path")
        pool.append({"tag": e["tag"], "spine": spine, "hw": [h[0] / g for h in e["hwo"]], "off": [h[1] / g for h in e["hwo"]],
                     "end": e["end"], "ext": [e["ext"][0] / g, e["ext"][1] / g], "scale_width": f["scale_width"], "props": f["props"]})
    if got["robustpaths"]:
        raise Mismatch("robust paths appear after a GDSII reload")

    def path_pred(e):
        endcode = lg.END_CODE[e["end"]]
        exp_w = lg.rnd(e["w"])

        def pred(x):
            # a zero width cannot carry the "absolute width" sign in a WIDTH record: it reloads as scalable
            if x["tag"] != e["tag"] or x["end"] != endcode or x["scale_width"] != (e["scale_width"] or exp_w == 0):
                return False
            # consecutive centre-line points that round to the same grid point are merged by the reader's segment():
            es = []
            for p in e["spine"]:
                q = (lg.rnd(p[0]), lg.rnd(p[1]))
                es.append(p)
            if not pts_match(es, x["spine"]):
                # allow dropped duplicates
                red = []
                for p in e["spine"]:
                    if not red or (lg.rnd(p[0]), lg.rnd(p[1])) != (lg.rnd(red[-1][0]), lg.rnd(red[-1][1])):
                        red.append(p)
                if not pts_match(red, x["spine"]):
                    return False
            if any(abs(2 * h - exp_w) > 1e-6 for h in x["hw"]) or any(abs(o) > 1e-9 for o in x["off"]):
                return False
            if endcode == 3 and (abs(x["ext"][0] - lg.rnd(e["ext"][0])) > 1e-6 or abs(x["ext"][1] - lg.rnd(e["ext"][1])) > 1e-6):
                return False
            return props_equal(e["props"], x["props"])
        return pred
    for e in exp["paths"]:
        take(pool, path_pred(e), "simple path tag %s width %s end %s from %s to %s not found after reload (centre line, width, end style, extensions, "
             "width scaling and properties must all survive)" % (e["tag"], e["w"], e["end"], e["spine"][0], e["spine"][-1]))
    if pool:
        raise Mismatch("%d unexpected path(s) after reload, e.g. tag %s spine %s" % (len(pool), pool[0]["tag"], pool[0]["spine"][:3]))
    # ---- labels
    pool = list(got["labels"])
    for e in exp["labels"]:
        def pred(x, e=e):
            o = (x["origin"][0] / g, x["origin"][1] / g)
            return (bytes.fromhex(x["text"] or "").decode("latin-1") == e["text"] and x["tag"] == e["tag"] and
                    abs(o[0] - e["origin"][0]) <= TOL_ROUND and abs(o[1] - e["origin"][1]) <= TOL_ROUND and
                    abs(o[0] - round(o[0])) < TOL_INT * max(1, abs(o[0]) * 1e-6) and abs(o[1] - round(o[1])) < TOL_INT * max(1, abs(o[1]) * 1e-6) and
                    x["anchor"] == e["anchor"] and angle_close(x["rotation"], e["rot"]) and rel_close(x["mag"], e["mag"]) and
                    x["xrefl"] == e["xr"] and x["rep"] is None and props_equal(e["props"], x["props"]))
        take(pool, pred, "label %r at %s (anchor %d rot %r mag %r xrefl %s) not found after reload" % (e["text"], e["origin"], e["anchor"], e["rot"], e["mag"], e["xr"]))
    if pool:
        raise Mismatch("%d unexpected label(s) after reload" % len(pool))
    # ---- references: compare placements
    got_pl = []
    big_got = []
    for r in got["refs"]:
        o = (r["origin"][0] / g, r["origin"][1] / g)
        check_int(o[0], "reference origin")
        check_int(o[1], "reference origin")
        rep = r["rep"]
        name = bytes.fromhex(r["target"] or "").decode("latin-1")
        base = {"target": name, "rot": r["rotation"], "mag": r["mag"], "xr": r["xrefl"], "props": r["props"], "type": r["type"]}
        if rep is not None and rep.get("cols", 1) * rep.get("rows", 1) > 2000:
            big_got.append((base, o, rep))
            continue
        grep = None
        if rep is not None:
            grep = dict(rep)
            for k in ("spacing", "v1", "v2"):
                if k in grep:
                    grep[k] = [v / g for v in grep[k]]
            if "offsets" in grep:
                grep["offsets"] = [[v / g for v in o2] for o2 in grep["offsets"]]
            if "coords" in grep:
                grep["coords"] = [v / g for v in grep["coords"]]
        for off in rep_offsets(grep):
            d = dict(base)
            d["pos"] = (o[0] + off[0], o[1] + off[1])
            got_pl.append(d)
    for e in exp["refs"]:
        tol = TOL_ROUND if (e["rep"] is None or lattice_on_grid(e["rep"])) else 1.01

        def pred_base(x, e=e):
            return (x["target"] == e["target"] and angle_close(x["rot"], e["rot"]) and rel_close(x["mag"], e["mag"]) and x["xr"] == e["xr"] and
                    props_equal(e["props"], x["props"]) and (x["type"] == "cell") == e["resolved"])
        if e["big"]:
            # large lattices are compared by their parameters
            rep = e["rep"]
            found = None
            for i, (b, o, grep) in enumerate(big_got):
                if not pred_base(b) or abs(o[0] - e["origin"][0]) > TOL_ROUND or abs(o[1] - e["origin"][1]) > TOL_ROUND:
                    continue
                v1 = rep.get("v1") or [rep["spacing"][0], 0.0]
                v2 = rep.get("v2") or [0.0, rep["spacing"][1]]
                w1 = [v / g for v in (grep.get("v1") or [grep["spacing"][0], 0.0])]
                w2 = [v / g for v in (grep.get("v2") or [0.0, grep["spacing"][1]])]
                c, r_ = grep["cols"], grep["rows"]

                def veq(a, b2, n):
                    return n <= 1 or (abs(a[0] - b2[0]) < 1e-3 and abs(a[1] - b2[1]) < 1e-3)
                if (c, r_) == (rep["cols"], rep["rows"]) and veq(v1, w1, c) and veq(v2, w2, r_):
                    found = i
                elif (c, r_) == (rep["rows"], rep["cols"]) and veq(v2, w1, c) and veq(v1, w2, r_):
                    found = i
                if found is not None:
                    break
            if found is None:
                raise Mismatch("array reference to %s with %d x %d lattice not found after reload (found %s)" %
                               (e["target"], rep["cols"], rep["rows"], [(b["target"], gr.get("cols"), gr.get("rows")) for b, o, gr in big_got]))
            big_got.pop(found)
            continue
        lattice = e["rep"] is not None and e["rep"]["type"] in ("rect", "regular") and tol > TOL_ROUND
        for k, off in enumerate(rep_offsets(e["rep"])):
            pos = (e["origin"][0] + off[0], e["origin"][1] + off[1])
            tx = ty = tol
            if lattice:
                # an AREF stores three corner points, each rounded on its own: P0 = origin, P1 = origin + cols v1,
                # P2 = origin + rows v2.  Placement (i, j) re-loads as P0 + (i/cols)(P1 - P0) + (j/rows)(P2 - P0), so with
                # a = i/cols, b = j/rows its error is e0 (1 - a - b) + a e1 + b e2 with |e1|, |e2| <= 1/2 and e0 known
                # (up to 1.5 grid units at the far corner of an off-grid lattice with an off-grid origin).
                a, b = (k // e["rep"]["rows"]) / e["rep"]["cols"], (k % e["rep"]["rows"]) / e["rep"]["rows"]
                tx = max(TOL_ROUND, abs(round(e["origin"][0]) - e["origin"][0]) * abs(1 - a - b) + 0.5 * (a + b) + 0.01)
                ty = max(TOL_ROUND, abs(round(e["origin"][1]) - e["origin"][1]) * abs(1 - a - b) + 0.5 * (a + b) + 0.01)
            take(got_pl, lambda x: pred_base(x) and abs(x["pos"][0] - pos[0]) <= tx and abs(x["pos"][1] - pos[1]) <= ty,
                 "reference to %s placed at %s (rot %r mag %r xrefl %s) not found after reload" % (e["target"], pos, e["rot"], e["mag"], e["xr"]))
    if got_pl or big_got:
        raise Mismatch("%d unexpected reference placement(s) after reload" % (len(got_pl) + len(big_got)))


def compare_library(lib, expected, dump, max_points, stats=None):
    g = lib["precision"] / lib["unit"]
    if not rel_close(dump["unit"], lib["unit"], 4e-16) or not rel_close(dump["precision"], lib["precision"], 4e-16):
        raise Mismatch("unit/precision reloaded as %r/%r, saved %r/%r" % (dump["unit"], dump["precision"], lib["unit"], lib["precision"]))
    names = [bytes.fromhex(c["name"]).decode("latin-1") for c in dump["cells"]]
    want = [e["name"] for e in expected]
    if sorted(names) != sorted(want):
        raise Mismatch("cells after reload %s, saved %s" % (names, want))
    bynames = {bytes.fromhex(c["name"]).decode("latin-1"): c for c in dump["cells"]}
    for e in expected:
        try:
            compare_cell(e, bynames[e["name"]], g, max_points, stats)
        except Mismatch as m:
            raise Mismatch("cell %r: %s" % (e["name"], m))
