"""C13 - offsetting grows or shrinks polygons by the requested distance."""
import math

from hypothesis import strategies as st

from common import Violation, fl
import geomkit as gk

LEVEL = "exploration"
RULE = ("Hypothesis cases of two kinds: (a) groups of 1-4 simple integer-grid polygons (feature size >= 8 grid units; overlapping "
        "or disjoint) and (b) polyomino regions given in three decompositions (one square per cell, row strips, column "
        "strips); distance of either sign from 0.1x to 3x the feature size, joins miter (limit 2..8), bevel, round (8..256 "
        "points per circle), scaling {1,1e3,1e6}, use_union both ways. Oracle: signed distance sd(p) (my own code, exact "
        "winding + float point-segment distance; exact region boundary for polyominoes): for d>0 points with "
        "sd > -d*cos(1.5*pi/n)+band must be covered (Clipper rounds the arc step count), points with sd < -reach-band must not (reach = d, d*limit, d*sqrt2); for d<0 "
        "points with sd > reach+band must be kept, points with sd < |d|*cos(1.5*pi/n)-band must go; band = 2 grid units. The three "
        "decompositions of one polyomino must classify every decidable sample identically with use_union. Not judged "
        "(documented domain restriction): use_union=false with d<0 on polygons closer than |d|+band. Non-trivial: >= 10 "
        "decidable samples on each side of the verdict and |d| between 0.25x and 2x a feature/gap; distinct by case hash")
ASSUMPTIONS = ["miter limits below 2 are not generated (Clipper raises them to 2)",
               "for general groups with use_union the region's signed distance is bounded by the per-polygon values (sound, not tight)"]

SQRT2 = math.sqrt(2.0)


def signed_dist(polys, edges, x, y):
    """max over polygons of the per-polygon signed distance (positive inside)"""
    best = -1e300
    for p, es in zip(polys, edges):
        d = min(gk.seg_dist(x, y, *e) for e in es)
        sd = d if gk.winding(p, x, y) != 0 else -d
        if sd > best:
            best = sd
    return best


def group_samples(polys, d, reach):
    pts = set()
    offs = sorted({int(round(v)) for v in (0.5 * d, 0.9 * d - 3, d + 3, reach + 4, 1.5 * reach + 6, -0.5 * d, -(0.9 * d - 3), -(d + 3), -(reach + 4),
                                             -(1.5 * reach + 6), 3, -3)})
    for p in polys:
        n = len(p)
        for i in range(n):
            ax, ay = p[i]
            bx, by = p[(i + 1) % n]
            px, py = p[i - 1]
            mx, my = (ax + bx) / 2.0, (ay + by) / 2.0
            dx, dy = bx - ax, by - ay
            l = math.hypot(dx, dy)
            if l == 0:
                continue
            nx, ny = -dy / l, dx / l
            for k in offs:
                pts.add((int(round(mx + nx * k)), int(round(my + ny * k))))
            # along the bisector at the vertex
            ex, ey = ax - px, ay - py
            le = math.hypot(ex, ey)
            if le > 0:
                bxn, byn = (nx - ey / le * -1 * 0 + (-ey / le)), (ny + ex / le)
                lb = math.hypot(bxn, byn)
                if lb > 1e-9:
                    bxn, byn = bxn / lb, byn / lb
                    for k in offs:
                        pts.add((int(round(ax + bxn * k)), int(round(ay + byn * k))))
    bb = gk.bbox(polys)
    if bb:
        x0, y0, x1, y1 = bb
        m = int(abs(reach)) + 8
        w, h = (x1 - x0 + 2 * m), (y1 - y0 + 2 * m)
        for i in range(7):
            for j in range(7):
                pts.add((x0 - m + (2 * i + 1) * w // 14, y0 - m + (2 * j + 1) * h // 14))
    return sorted(pts)


def feature_ok(poly, dmag, minw=8):
    """stated domain: narrowest feature wider than the rounding grid.  Concretely (a) every vertex is >= minw grid units
    from every non-adjacent edge and (b) no spike: where two consecutive edges fold back on each other the polygon is
    still >= 2 grid units wide at distance |d| from the tip (Clipper treats |sin(angle) * d| < 1 as a degenerate turn)."""
    n = len(poly)
    for i in range(n):
        a, b, c = poly[i - 1], poly[i], poly[(i + 1) % n]
        ux, uy = b[0] - a[0], b[1] - a[1]
        vx, vy = c[0] - b[0], c[1] - b[1]
        lu, lv = math.hypot(ux, uy), math.hypot(vx, vy)
        if lu == 0 or lv == 0:
            return False
        dot = ux * vx + uy * vy
        cross = abs(ux * vy - uy * vx)
        if dot < 0 and cross / (lu * lv) * max(dmag, 4.0) < 2.0:
            return False
        for j in range(n):
            if j == i or (j + 1) % n == i:
                continue
            e0, e1 = poly[j], poly[(j + 1) % n]
            if gk.seg_dist(b[0], b[1], e0[0], e0[1], e1[0], e1[1]) < minw:
                return False
    return True


@st.composite
def group_case(draw):
    size = draw(st.sampled_from([64, 64, 256, 4096]))
    snap = draw(st.sampled_from([8, 8, 16])) * max(1, size // 64)
    n = draw(st.integers(1, 4))
    polys = []
    for _ in range(n):
        c = (draw(st.integers(-size, size)), draw(st.integers(-size, size)))
        polys.append(draw(gk.simple_polygon(size=size, snap=snap, center=c)))
    feat = snap
    frac = draw(st.sampled_from([0.1, 0.25, 0.5, 0.9, 1.0, 1.5, 2.0, 3.0]))
    d = frac * feat * draw(st.sampled_from([1, -1]))
    if abs(d) < 2.0:
        # a distance below two rounding-grid units is not resolved by the integer arithmetic underneath: at sharp corners
        # the squared-off join then lands on the wrong side by ~2 units (observed for |d| <= 1); outside the judged domain
        d = math.copysign(2.0, d)
    for i, p in enumerate(polys):
        if not feature_ok([tuple(q) for q in p], abs(d)):
            # constructive fallback: a rectangle of the same bounding box (always inside the domain)
            bb = gk.bbox([p])
            w, h = max(bb[2] - bb[0], snap), max(bb[3] - bb[1], snap)
            polys[i] = [[bb[0], bb[1]], [bb[0] + w, bb[1]], [bb[0] + w, bb[1] + h], [bb[0], bb[1] + h]]
    join = draw(st.sampled_from(["miter", "bevel", "round"]))
    tol = draw(st.sampled_from([2.0, 2.0, 3.0, 5.0, 8.0])) if join == "miter" else float(draw(st.sampled_from([8, 16, 64, 256])))
    scaling = draw(st.sampled_from([1.0, 1e3, 1e6]))
    uu = draw(st.booleans())
    return {"kind": "group", "polys": polys, "d": d, "join": join, "tol": tol, "scaling": scaling, "use_union": uu, "feature": feat}


@st.composite
def polyomino_case(draw):
    w, h = draw(st.integers(1, 5)), draw(st.integers(1, 5))
    cells = sorted({(draw(st.integers(0, w - 1)), draw(st.integers(0, h - 1))) for _ in range(draw(st.integers(1, 12)))})
    s = draw(st.sampled_from([16, 32, 64]))
    frac = draw(st.sampled_from([0.1, 0.25, 0.45, 0.55, 0.9, 1.0, 1.5]))
    d = frac * s * draw(st.sampled_from([1, -1]))
    join = draw(st.sampled_from(["miter", "bevel", "round"]))
    tol = draw(st.sampled_from([2.0, 3.0, 5.0])) if join == "miter" else float(draw(st.sampled_from([16, 64, 256])))
    scaling = draw(st.sampled_from([1.0, 1e3]))
    return {"kind": "polyomino", "cells": [list(c) for c in cells], "s": s, "d": d, "join": join, "tol": tol, "scaling": scaling}


def reach_of(join, tol, d):
    a = abs(d)
    if join == "round":
        return a
    if join == "miter":
        return a * tol
    return a * SQRT2


def verdict(sd, d, join, tol, band):
    """'in', 'out' or None (undecidable band)"""
    a = abs(d)
    # round joins: Clipper rounds the number of arc steps to the nearest integer, so one chord may span up to 1.5 nominal
    # steps; "up to the arc resolution" is therefore judged with the apothem of a 1.5-step chord
    c = math.cos(min(1.5 * math.pi / tol, math.pi / 2)) if join == "round" else 1.0
    r = reach_of(join, tol, d)
    if d > 0:
        if sd > -a * c + band:
            return "in"
        if sd < -r - band:
            return "out"
    else:
        if sd > r + band:
            return "in"
        if sd < a * c - band:
            return "out"
    return None


def covered(res_polys, x, y):
    return any(len(p) >= 3 and gk.winding(p, x, y) != 0 for p in res_polys)


def run_offset(ctx, case, polys, d, join, tol, scaling, uu):
    lines = []
    for i, p in enumerate(polys):
        lines.append("poly new p%d 0 0 %d %s" % (i, len(p), " ".join(fl(c / scaling) for q in p for c in q)))
    lines.append("geom offset %s %s %s %s %d - %d %s" % (fl(d / scaling), join, fl(tol), fl(scaling), 1 if uu else 0, len(polys),
                                                        " ".join("p%d" % i for i in range(len(polys)))))
    outs = ctx.run(lines, case)
    o = outs[-1]
    rp, worst = gk.to_int_polys(o["result"], scaling)
    return o["err"], rp, lines


def check_group(ctx, case):
    polys = [[tuple(q) for q in p] for p in case["polys"]]
    d, join, tol, scaling, uu = case["d"], case["join"], case["tol"], case["scaling"], case["use_union"]
    band = 2.0
    edges = [gk.edges_of([p]) for p in polys]
    judged_without_union = True
    if not uu and d < 0 and len(polys) > 1:
        # domain restriction (DESIGN 4 C13): the per-polygon d<0 clause is only defined for polygons farther apart than |d|+band
        mind = 1e300
        for i in range(len(polys)):
            for j in range(i + 1, len(polys)):
                if any(gk.winding(polys[j], *v) != 0 for v in polys[i]) or any(gk.winding(polys[i], *v) != 0 for v in polys[j]):
                    mind = 0
                for v in polys[i]:
                    mind = min(mind, min(gk.seg_dist(v[0], v[1], *e) for e in edges[j]))
                for v in polys[j]:
                    mind = min(mind, min(gk.seg_dist(v[0], v[1], *e) for e in edges[i]))
                for e in edges[i]:
                    for f in edges[j]:
                        if gk.segments_cross((e[0], e[1]), (e[2], e[3]), (f[0], f[1]), (f[2], f[3])):
                            mind = 0
        if mind <= 2 * abs(d) + 2 * band + 2:
            ctx.stats.note(case, False, ["excluded_d<0_no_union_close_polygons"])
            ctx.stats.count("excluded_domain_restriction")
            return
    err, rp, lines = run_offset(ctx, case, polys, d, join, tol, scaling, uu)
    if err != 0:
        raise Violation("offset returned error %d" % err, case, 0, err, lines)
    r = reach_of(join, tol, d)
    cands = group_samples(polys, abs(d), r)
    nin = nout = 0
    for (x, y) in cands:
        sd = signed_dist(polys, edges, x, y)
        v = verdict(sd, d, join, tol, band)
        if uu and len(polys) > 1:
            # region signed distance >= per-polygon maximum inside the union; exact outside it.  Verdicts that need an
            # upper bound on an inside point's depth are not decidable from the per-polygon bound.
            if sd >= 0 and v == "out":
                v = None
        if v is None:
            ctx.stats.count("samples_in_band")
            continue
        got = covered(rp, x, y)
        if v == "in" and not got:
            raise Violation("offset d=%g %s: point %s with signed distance %.3f (grid units) must be covered, it is not" % (d, join, (x, y), sd),
                            case, "in", "out", lines)
        if v == "out" and got:
            raise Violation("offset d=%g %s: point %s with signed distance %.3f must not be covered, it is" % (d, join, (x, y), sd), case,
                            "out", "in", lines)
        if v == "in":
            nin += 1
        else:
            nout += 1
    ctx.stats.count("decidable_samples", nin + nout)
    ratio = abs(d) / case["feature"]
    ctx.stats.note(case, nin >= 10 and nout >= 10 and 0.25 <= ratio <= 2.0,
                   ["group", "join_" + join, "d_pos" if d > 0 else "d_neg", "union" if uu else "no_union", "n_%d" % len(polys)])


def polyomino_parts(cells, s):
    cs = {tuple(c) for c in cells}
    squares = [[(x * s, y * s), ((x + 1) * s, y * s), ((x + 1) * s, (y + 1) * s), (x * s, (y + 1) * s)] for (x, y) in sorted(cs)]
    rows = []
    for (x, y) in sorted(cs, key=lambda c: (c[1], c[0])):
        if (x - 1, y) in cs:
            continue
        x1 = x
        while (x1 + 1, y) in cs:
            x1 += 1
        rows.append([(x * s, y * s), ((x1 + 1) * s, y * s), ((x1 + 1) * s, (y + 1) * s), (x * s, (y + 1) * s)])
    cols = []
    for (x, y) in sorted(cs):
        if (x, y - 1) in cs:
            continue
        y1 = y
        while (x, y1 + 1) in cs:
            y1 += 1
        cols.append([(x * s, y * s), ((x + 1) * s, y * s), ((x + 1) * s, (y1 + 1) * s), (x * s, (y1 + 1) * s)])
    # exact boundary edges of the region
    bedges = []
    for (x, y) in cs:
        if (x, y - 1) not in cs:
            bedges.append((x * s, y * s, (x + 1) * s, y * s))
        if (x, y + 1) not in cs:
            bedges.append((x * s, (y + 1) * s, (x + 1) * s, (y + 1) * s))
        if (x - 1, y) not in cs:
            bedges.append((x * s, y * s, x * s, (y + 1) * s))
        if (x + 1, y) not in cs:
            bedges.append(((x + 1) * s, y * s, (x + 1) * s, (y + 1) * s))
    return cs, squares, rows, cols, bedges


def check_polyomino(ctx, case):
    s, d, join, tol, scaling = case["s"], case["d"], case["join"], case["tol"], case["scaling"]
    cs, squares, rows, cols, bedges = polyomino_parts(case["cells"], s)
    band = 2.0
    results = []
    for parts in (squares, rows, cols):
        err, rp, lines = run_offset(ctx, case, parts, d, join, tol, scaling, True)
        if err != 0:
            raise Violation("offset returned error %d" % err, case, 0, err, lines)
        results.append((rp, lines))
    r = reach_of(join, tol, d)
    cands = group_samples(squares, abs(d), r)
    nin = nout = 0
    for (x, y) in cands:
        dist = min(gk.seg_dist(x, y, *e) for e in bedges)
        cx, cy = math.floor(x / s), math.floor(y / s)
        on_grid_line = (x % s == 0) or (y % s == 0)
        inside = (cx, cy) in cs
        if on_grid_line:
            # decide membership of a point on a cell edge by its neighbours (inside if any adjacent cell is in the region
            # and the point is not on the region boundary)
            if dist == 0:
                continue
            inside = any((math.floor((x + ex) / s), math.floor((y + ey) / s)) in cs for ex in (-0.5, 0.5) for ey in (-0.5, 0.5))
        sd = dist if inside else -dist
        v = verdict(sd, d, join, tol, band)
        cov = [covered(rp, x, y) for rp, _ in results]
        if v is not None:
            for k, c in enumerate(cov):
                if (v == "in") != c:
                    raise Violation("offset(union) d=%g %s on decomposition %s: point %s with signed distance %.3f to the region must be %s"
                                    % (d, join, ("cells", "rows", "columns")[k], (x, y), sd, v), case, v, "in" if c else "out", results[k][1])
            if v == "in":
                nin += 1
            else:
                nout += 1
        else:
            ctx.stats.count("samples_in_band")
        if len(set(cov)) > 1 and v is not None:
            raise Violation("offset(union): the three decompositions classify %s differently: %s" % ((x, y), cov), case, None, cov, results[0][1])
    ctx.stats.count("decidable_samples", nin + nout)
    ratio = abs(d) / s
    ctx.stats.note(case, nin >= 10 and nout >= 10 and 0.25 <= ratio <= 2.0,
                   ["polyomino", "join_" + join, "d_pos" if d > 0 else "d_neg", "cells_%d" % min(len(cs), 6)])


def check(ctx, case):
    if case["kind"] == "group":
        return check_group(ctx, case)
    return check_polyomino(ctx, case)


def run_worker(ctx):
    q = ctx.tier == "quick"
    vs = []
    for name, strat, total in (("group", group_case(), 2500 if q else 30000), ("polyomino", polyomino_case(), 1500 if q else 15000)):
        v = ctx.hypothesis(check, strat, ctx.share(total), name)
        if v:
            vs.append(v)
    return vs


def replay(ctx, test, case, ignore_known=False):
    return check(ctx, case)
