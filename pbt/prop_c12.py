"""C12 - fracturing and slicing partition a polygon without changing the region."""
import math

from hypothesis import strategies as st

from common import Violation, fl, hx
import geomkit as gk
import repgen

LEVEL = "exploration"
RULE = ("Hypothesis cases: a simple polygon on the precision grid (convex, star-shaped, rectilinear comb with 4n vertices up "
        "to n = 60 quick / 2500 thorough, spiral, with inserted collinear and repeated vertices and 1-grid-wide slivers), "
        "precision from {1e-3, 1e-2, 1}, coordinates up to 2^40 grid units; FRACTURE with limits {0..4 (no-op), 5, 6, 7, 10, "
        "199, 4000}: every piece has <= limit vertices and carries tag, repetition and an equal independent property list; "
        "decidable sample points (>= 2 grid units from every original and piece edge) are covered by exactly one piece iff "
        "inside the original; sum of piece areas = original area within perimeter x grid; the call returns. SLICE with "
        "sorted cut lists of 0-6 positions (below/at/above the bounding box, duplicates) on either axis: result has "
        "positions+1 bins and bin i holds exactly polygon ∩ strip i (sample test with the strip predicate, samples >= 2 "
        "units from the cut lines). WRITER: a cell with such a polygon, a non-simple flexible path (round/miter/bevel joins, "
        "round/half-width ends) and a non-simple robust path (segment, arc, segment) is saved with write_gds(max_points in "
        "{0, 5..199}) and re-loaded: per element every polygon in the file has <= limit vertices, is on the file grid, and "
        "the polygons partition the element's outline (same sample test with a 3-unit band, area identity). Non-trivial: vertices > 2 x limit (forces re-slicing) or >= 2 cuts strictly inside the "
        "box or a writer case in which an outline was split; distinct by case hash")
ASSUMPTIONS = ["pieces are judged up to the 2-grid-unit guard band (the statement says 'up to the rounding grid')",
               "for polygons with more than 400 vertices a deterministic subset of <= 200 sample candidates is used"]


def comb(teeth, tw, th, bh, x0, y0):
    pts = [(x0, y0), (x0 + (2 * teeth - 1) * tw, y0)]
    for t in range(teeth):
        xr = x0 + (2 * (teeth - t) - 1) * tw
        xl = xr - tw
        pts += [(xr, y0 + bh + th), (xl, y0 + bh + th)]
        if t != teeth - 1:
            pts += [(xl, y0 + bh), (xl - tw, y0 + bh)]
    return pts


def spiral(turns, w, x0, y0):
    """rectilinear spiral corridor of width w (simple by construction)"""
    outer = []
    inner = []
    x, y = x0, y0
    L = (2 * turns + 2) * 2 * w
    # build centre line of a square spiral going inwards, then offset by +-w/2 using a simple construction:
    pts = [(0, 0)]
    d = [(1, 0), (0, 1), (-1, 0), (0, -1)]
    length = L
    k = 0
    cx, cy = 0, 0
    while length > 2 * w and k < 4 * turns:
        dx, dy = d[k % 4]
        cx += dx * length
        cy += dy * length
        pts.append((cx, cy))
        if k % 2 == 1:
            length -= 2 * w
        k += 1
    # offset polyline by w/2 on both sides (axis parallel segments, right-angle turns)
    h = w // 2
    left, right = [], []
    n = len(pts)
    for i in range(n):
        px, py = pts[i]
        if i == 0:
            dx, dy = pts[1][0] - px, pts[1][1] - py
            dx, dy = (dx > 0) - (dx < 0), (dy > 0) - (dy < 0)
            left.append((px - dy * h, py + dx * h))
            right.append((px + dy * h, py - dx * h))
        elif i == n - 1:
            dx, dy = px - pts[i - 1][0], py - pts[i - 1][1]
            dx, dy = (dx > 0) - (dx < 0), (dy > 0) - (dy < 0)
            left.append((px - dy * h, py + dx * h))
            right.append((px + dy * h, py - dx * h))
        else:
            ax, ay = px - pts[i - 1][0], py - pts[i - 1][1]
            bx, by = pts[i + 1][0] - px, pts[i + 1][1] - py
            ax, ay = (ax > 0) - (ax < 0), (ay > 0) - (ay < 0)
            bx, by = (bx > 0) - (bx < 0), (by > 0) - (by < 0)
            left.append((px - ay * h - by * h, py + ax * h + bx * h))
            right.append((px + ay * h + by * h, py - ax * h - bx * h))
    poly = left + right[::-1]
    return [(x0 + a, y0 + b) for a, b in poly]


@st.composite
def big_polygon(draw, thorough):
    fam = draw(st.sampled_from(["comb", "comb", "spiral", "star", "small", "small", "sliver"]))
    base = draw(st.sampled_from([0, 0, 1 << 20, 1 << 40]))
    x0 = draw(st.integers(-1000, 1000)) + base * draw(st.sampled_from([-1, 1]))
    y0 = draw(st.integers(-1000, 1000)) + base * draw(st.sampled_from([-1, 0, 1]))
    if fam == "comb":
        maxt = 2500 if thorough else 60
        teeth = draw(st.sampled_from([1, 2, 3, 5, 8, 13, 25, 50, 60] + ([250, 1000, 2500] if thorough else [])))
        teeth = min(teeth, maxt)
        tw = draw(st.integers(1, 30))
        pts = comb(teeth, tw, draw(st.integers(4, 300)), draw(st.integers(4, 40)), x0, y0)
        if draw(st.booleans()):
            pts = [(y - y0 + x0, x - x0 + y0) for x, y in pts]  # transpose -> teeth along y
    elif fam == "spiral":
        pts = spiral(draw(st.integers(1, 8)), 2 * draw(st.integers(3, 20)), x0, y0)
        if not gk.is_simple(pts):
            pts = comb(3, 6, 20, 8, x0, y0)
    elif fam == "star":
        n = draw(st.integers(5, 60))
        R = 30 * n
        angs = [(i + 0.5) * 2 * math.pi / n for i in range(n)]
        pts = []
        for i, a in enumerate(angs):
            r = R if i % 2 == 0 else draw(st.integers(R // 3, R))
            pts.append((x0 + int(round(r * math.cos(a))), y0 + int(round(r * math.sin(a)))))
        if not gk.is_simple(pts):
            pts = comb(3, 6, 20, 8, x0, y0)
    elif fam == "sliver":
        L = draw(st.integers(50, 5000))
        pts = [(x0, y0), (x0 + L, y0), (x0 + L, y0 + 1), (x0, y0 + 1)]
        if draw(st.booleans()):
            pts = [(x0, y0), (x0 + L, y0 + L // 3), (x0 + L, y0 + L // 3 + 1), (x0, y0 + 1)]
    else:
        pts = [tuple(p) for p in draw(gk.simple_polygon(size=draw(st.sampled_from([40, 200, 5000])), center=(x0, y0)))]
    # collinear and repeated vertices
    extra = draw(st.integers(0, 3))
    pts = list(pts)
    for _ in range(extra):
        i = draw(st.integers(0, len(pts) - 1))
        a, b = pts[i], pts[(i + 1) % len(pts)]
        if draw(st.booleans()):
            pts.insert(i + 1, a)  # repeated vertex
        elif (a[0] + b[0]) % 2 == 0 and (a[1] + b[1]) % 2 == 0:
            pts.insert(i + 1, ((a[0] + b[0]) // 2, (a[1] + b[1]) // 2))  # collinear midpoint
    if draw(st.booleans()):
        pts = pts[::-1]
    return [list(p) for p in pts]


@st.composite
def fracture_case(draw, thorough):
    poly = draw(big_polygon(thorough))
    limit = draw(st.sampled_from([0, 4, 5, 5, 5, 6, 6, 7, 8, 10, 10, 20, 199, 4000]))
    prec = draw(st.sampled_from([1e-3, 1e-2, 1.0]))
    rep = draw(st.one_of(st.none(), repgen.repetition()))
    nprops = draw(st.integers(0, 2))
    return {"op": "fracture", "poly": poly, "limit": limit, "precision": prec, "rep": rep, "nprops": nprops,
            "tag": [draw(st.integers(0, 255)), draw(st.integers(0, 255))]}


@st.composite
def slice_case(draw, thorough):
    poly = draw(big_polygon(False))
    prec = draw(st.sampled_from([1e-3, 1e-2, 1.0]))
    x_axis = draw(st.booleans())
    bb = gk.bbox([poly])
    lo, hi = (bb[0], bb[2]) if x_axis else (bb[1], bb[3])
    n = draw(st.integers(0, 6))
    cuts = []
    for _ in range(n):
        m = draw(st.integers(0, 9))
        if m == 0:
            cuts.append(lo - draw(st.integers(1, 50)))
        elif m == 1:
            cuts.append(hi + draw(st.integers(1, 50)))
        elif m == 2:
            cuts.append(lo)
        elif m == 3:
            cuts.append(hi)
        elif m == 4 and cuts:
            cuts.append(draw(st.sampled_from(cuts)))
        else:
            cuts.append(draw(st.integers(lo, hi)))
    cuts.sort()
    return {"op": "slice", "poly": poly, "precision": prec, "x_axis": x_axis, "cuts": cuts}


def pick_samples(polys_for_cands, edges_polys, maxc=200, band=2):
    cands = gk.candidate_samples(polys_for_cands, grid=5)
    if len(cands) > maxc:
        step = len(cands) / float(maxc)
        cands = [cands[int(i * step)] for i in range(maxc)]
    return gk.decidable(edges_polys, cands, band=band), len(cands)


def check_fracture(ctx, case):
    poly = [tuple(p) for p in case["poly"]]
    prec = case["precision"]
    limit = case["limit"]
    lines = ["poly new p %d %d %d %s" % (case["tag"][0], case["tag"][1], len(poly), " ".join(fl(c * prec) for p in poly for c in p))]
    if case["rep"] is not None:
        lines.append("rep set poly p %s" % repgen.spec(case["rep"]))
    for i in range(case["nprops"]):
        lines.append("prop poly p set_u %s %d 1" % (hx("k%d" % i), i + 7))
    lines.append("dump poly p")
    lines.append("poly fracture p %d %s f" % (limit, fl(prec)))
    lines.append("dump poly p")
    lines.append("prop poly p set_u %s 1 1" % hx("after"))   # mutate the original's list: pieces must keep theirs
    if limit > 4:
        lines.append("dump poly f.0")
    outs = ctx.run(lines, case)
    before, res, after = outs[0]["poly"], outs[1]["result"], outs[2]["poly"]
    if before != after:
        raise Violation("fracture modified the original polygon", case, before, after, lines)
    n = len(poly)
    labels = ["fracture", "limit_%d" % limit]
    if limit <= 4:
        if res:
            raise Violation("fracture with limit %d (< 5) returned %d pieces; it must leave the polygon alone" % (limit, len(res)), case, 0, len(res), lines)
        ctx.stats.note(case, False, labels + ["noop"])
        return
    pieces, worst = gk.to_int_polys(res, 1.0 / prec)
    if worst > 0.3:
        raise Violation("fracture returned an off-grid vertex (residue %g)" % worst, case, 0, worst, lines)
    for r, pc in zip(res, pieces):
        if len(pc) > limit:
            raise Violation("a piece has %d vertices, limit %d" % (len(pc), limit), case, limit, len(pc), lines)
        if r["tag"] != before["tag"] or r["rep"] != before["rep"] or r["props"] != before["props"]:
            raise Violation("a piece does not carry the original's tag/repetition/properties", case,
                            [before["tag"], before["rep"], before["props"]], [r["tag"], r["rep"], r["props"]], lines)
    if outs[3]["poly"]["props"] != before["props"]:
        raise Violation("pieces share the original's property list (changed after the original was edited)", case, before["props"],
                        outs[3]["poly"]["props"], lines)
    orig = [poly]
    samples, ncand = pick_samples(orig + (pieces if len(pieces) < 40 else []), orig + pieces)
    for (x, y) in samples:
        inside = gk.winding(poly, x, y) != 0
        cover = sum(1 for pc in pieces if len(pc) >= 3 and gk.winding(pc, x, y) != 0)
        if inside and cover != 1:
            raise Violation("point %s inside the original is covered by %d pieces" % ((x, y), cover), case, 1, cover, lines)
        if not inside and cover != 0:
            raise Violation("point %s outside the original is covered by %d pieces" % ((x, y), cover), case, 0, cover, lines)
    a0 = abs(gk.area2(poly)) / 2.0
    a1 = sum(abs(gk.area2(pc)) for pc in pieces) / 2.0
    tol = gk.perimeter(poly) + sum(gk.perimeter(pc) for pc in pieces) + 4
    if abs(a0 - a1) > tol:
        raise Violation("sum of piece areas %r, original %r" % (a1, a0), case, a0, a1, lines)
    ctx.stats.count("fracture_samples", len(samples))
    ctx.stats.maximum("max_vertices", n)
    ctx.stats.maximum("max_pieces", len(pieces))
    labels.append("pieces_%s" % ("1" if len(pieces) == 1 else "2-9" if len(pieces) < 10 else "10+"))
    labels.append("n_%s" % ("le40" if n <= 40 else "le400" if n <= 400 else "gt400"))
    ctx.stats.note(case, n > 2 * limit, labels)


def check_slice(ctx, case):
    poly = [tuple(p) for p in case["poly"]]
    prec = case["precision"]
    cuts = case["cuts"]
    x_axis = case["x_axis"]
    lines = ["poly new p 1 2 %d %s" % (len(poly), " ".join(fl(c * prec) for p in poly for c in p)),
             "poly slice p %d %s %d %s" % (1 if x_axis else 0, fl(1.0 / prec), len(cuts), " ".join(fl(c * prec) for c in cuts))]
    outs = ctx.run(lines, case)
    o = outs[0]
    if o["err"] != 0:
        raise Violation("slice returned error %d" % o["err"], case, 0, o["err"], lines)
    bins = o["bins"]
    if len(bins) != len(cuts) + 1:
        raise Violation("slice returned %d bins for %d cuts" % (len(bins), len(cuts)), case, len(cuts) + 1, len(bins), lines)
    ib = []
    for b in bins:
        pcs, worst = gk.to_int_polys(b, 1.0 / prec)
        ib.append(pcs)
    allpieces = [pc for b in ib for pc in b]
    samples, ncand = pick_samples([poly] + allpieces[:40], [poly] + allpieces)
    bounds = [None] + list(cuts) + [None]
    axis = 0 if x_axis else 1
    for (x, y) in samples:
        c = (x, y)[axis]
        if any(abs(c - k) < 2 for k in cuts):
            ctx.stats.count("slice_skipped_near_cut")
            continue
        inside = gk.winding(poly, x, y) != 0
        for i, b in enumerate(ib):
            lo, hi = bounds[i], bounds[i + 1]
            in_strip = (lo is None or c > lo) and (hi is None or c < hi)
            want = inside and in_strip
            cover = sum(1 for pc in b if len(pc) >= 3 and gk.winding(pc, x, y) != 0)
            if want and cover != 1:
                raise Violation("bin %d (strip %s..%s): point %s of the polygon is covered by %d pieces" % (i, lo, hi, (x, y), cover), case, 1, cover, lines)
            if not want and cover != 0:
                raise Violation("bin %d (strip %s..%s): point %s must not be covered (inside=%s) but is" % (i, lo, hi, (x, y), inside), case, 0, cover, lines)
    bb = gk.bbox([poly])
    lo_b, hi_b = (bb[0], bb[2]) if x_axis else (bb[1], bb[3])
    interior = len({k for k in cuts if lo_b < k < hi_b})
    ctx.stats.count("slice_samples", len(samples))
    ctx.stats.note(case, interior >= 2, ["slice", "axis_" + ("x" if x_axis else "y"), "cuts_%d" % len(cuts), "interior_cuts_%d" % min(interior, 3)])


@st.composite
def writer_case(draw, thorough):
    """one cell holding the three kinds of element whose outlines Cell::to_gds splits when a vertex limit is given: a polygon,
    a flexible path and a robust path that are not simple paths (written as their outlines, many vertices at round joins,
    round ends and arcs); all three outlines are simple polygons by construction (gentle turns, segments much longer than wide)"""
    poly = draw(big_polygon(False))
    bx, by = min(p[0] for p in poly), min(p[1] for p in poly)
    sx, sy = draw(st.integers(-500, 500)), draw(st.integers(-500, 500))
    poly = [[p[0] - bx + sx, p[1] - by + sy] for p in poly]          # 32-bit file coordinates: back to the origin
    limit = draw(st.sampled_from([0, 5, 5, 6, 7, 8, 10, 12, 20, 50, 199]))
    ang = draw(st.sampled_from([0.0, 0.5, 1.5, 3.0, -2.0]))
    x, y = 0.0, 100000.0
    spine = [[x, y]]
    for _ in range(draw(st.integers(1, 4))):
        L = draw(st.integers(300, 800))
        x, y = x + L * math.cos(ang), y + L * math.sin(ang)
        spine.append([float(round(x)), float(round(y))])
        ang += draw(st.sampled_from([-1.0, -0.5, 0.4, 0.9]))
    fp = {"spine": spine, "w": float(draw(st.sampled_from([20, 40, 60]))), "join": draw(st.sampled_from([0, 1, 2, 3, 3])),
          "end": draw(st.sampled_from([0, 1, 1, 2])), "tol": draw(st.sampled_from([0.05, 0.2]))}
    rp = {"start": [0.0, 200000.0], "w": float(draw(st.sampled_from([10, 20, 40]))), "end": draw(st.sampled_from([0, 1, 1, 2])),
          "tol": draw(st.sampled_from([0.05, 0.2])), "seg0": float(draw(st.integers(100, 400))), "r": float(draw(st.integers(80, 300))),
          "da": draw(st.sampled_from([0.7, 1.2, 2.0])), "seg1": float(draw(st.integers(0, 300)))}
    return {"op": "writer", "poly": poly, "limit": limit, "fp": fp, "rp": rp}


def check_writer(ctx, case):
    g = 1e-3           # unit 1e-6, precision 1e-9: the file grid in user units
    limit = case["limit"]
    poly = [tuple(p) for p in case["poly"]]
    fp, rp = case["fp"], case["rp"]
    path = ctx.path("c12.gds")
    lines = ["poly new p 1 0 %d %s" % (len(poly), " ".join(fl(c * g) for q in poly for c in q)),
             "fp new f %s %s 1 %s 0 1 %s %s 2 0" % (fl(fp["spine"][0][0] * g), fl(fp["spine"][0][1] * g), fl(fp["tol"] * g), fl(fp["w"] * g), fl(0.0)),
             "fp elem f 0 %d %d %s %s 0 0" % (fp["join"], fp["end"], fl(0.0), fl(0.0)),
             "fp seg f 0 %d %s - -" % (len(fp["spine"]) - 1, " ".join(fl(c * g) for q in fp["spine"][1:] for c in q)),
             "fp topoly f 0 0 0 -",
             "rp new r %s %s 1 %s 1000 0 1 %s %s 3 0" % (fl(rp["start"][0] * g), fl(rp["start"][1] * g), fl(rp["tol"] * g), fl(rp["w"] * g), fl(0.0)),
             "rp elem r 0 %d %s %s" % (rp["end"], fl(0.0), fl(0.0)),
             "rp seg r 1 %s %s - -" % (fl(rp["seg0"] * g), fl(0.0)),
             "rp arc r %s %s %s %s 0 - -" % (fl(rp["r"] * g), fl(rp["r"] * g), fl(-math.pi / 2), fl(-math.pi / 2 + rp["da"]))]
    if rp["seg1"] > 0:
        lines.append("rp seg r 1 %s %s - -" % (fl(rp["seg1"] * math.cos(rp["da"]) * g), fl(rp["seg1"] * math.sin(rp["da"]) * g)))
    lines += ["rp topoly r 0 0 0 -", "cell new c %s" % hx("TOP"), "cell add c poly p", "cell add c fp f", "cell add c rp r",
              "lib new l %s %s %s" % (hx("L"), fl(1e-6), fl(1e-9)), "lib add l c",
              "io write_gds l %s %d" % (path, limit), "io read_gds R %s 0 %s N" % (path, fl(1e-4)), "dump lib R"]
    outs = ctx.run(lines, case)
    tops = [o for o in outs if isinstance(o, dict) and "result" in o and "err" in o]
    dump = [o for o in outs if isinstance(o, dict) and "lib" in o][0]["lib"]
    wr = [o for o in outs if isinstance(o, dict) and "err" in o and "result" not in o]
    for o in wr:
        if o["err"] != 0:
            raise Violation("write_gds / read_gds returned error %d" % o["err"], case, 0, o["err"], lines)
    if len(tops) != 2 or any(o["err"] != 0 or len(o["result"]) != 1 for o in tops):
        raise Violation("the outline of a path could not be taken", case, None, [(o["err"], len(o["result"])) for o in tops], lines)
    originals = {1: [(float(x), float(y)) for x, y in poly],
                 2: [(x / g, y / g) for x, y in tops[0]["result"][0]["pts"]],
                 3: [(x / g, y / g) for x, y in tops[1]["result"][0]["pts"]]}
    got = {1: [], 2: [], 3: []}
    for q in dump["cells"][0]["polygons"]:
        if q["tag"][0] not in got or q["tag"][1] != 0:
            raise Violation("a re-loaded polygon has tag %s" % q["tag"], case, None, q["tag"], lines)
        got[q["tag"][0]].append(q)
    labels = ["writer", "limit_%d" % limit]
    split_any = False
    for layer, what in ((1, "polygon"), (2, "flexible path outline"), (3, "robust path outline")):
        orig = originals[layer]
        pieces, worst = gk.to_int_polys(got[layer], 1.0 / g)
        if worst > 1e-6:
            raise Violation("%s: a re-loaded vertex is off the file grid (residue %g)" % (what, worst), case, 0, worst, lines)
        if not pieces:
            raise Violation("%s: nothing was written" % what, case, ">= 1 polygon", 0, lines)
        if limit > 4:
            for pc in pieces:
                if len(pc) > limit:
                    raise Violation("%s written with vertex limit %d: a piece in the file has %d vertices" % (what, limit, len(pc)), case, limit, len(pc), lines)
        elif len(pieces) != 1:
            raise Violation("%s written without a vertex limit came back as %d polygons" % (what, len(pieces)), case, 1, len(pieces), lines)
        n = len(orig)
        if len(pieces) > 1:
            split_any = True
            labels.append("split_%s" % what.split()[0])
        oi = [(int(round(x)), int(round(y))) for x, y in orig]
        samples, ncand = pick_samples([oi] + (pieces if len(pieces) < 40 else []), [oi] + pieces, band=3)
        for (x, y) in samples:
            inside = gk.winding(orig, x, y) != 0
            cover = sum(1 for pc in pieces if len(pc) >= 3 and gk.winding(pc, x, y) != 0)
            if inside and cover != 1:
                raise Violation("%s, vertex limit %d: point %s inside the original (%d vertices) is covered by %d of the %d polygons in the file" %
                                (what, limit, (x, y), n, cover, len(pieces)), case, 1, cover, lines)
            if not inside and cover != 0:
                raise Violation("%s, vertex limit %d: point %s outside the original is covered by %d polygons in the file" % (what, limit, (x, y), cover),
                                case, 0, cover, lines)
        a0 = abs(sum(orig[i][0] * orig[(i + 1) % n][1] - orig[(i + 1) % n][0] * orig[i][1] for i in range(n))) / 2.0
        a1 = sum(abs(gk.area2(pc)) for pc in pieces) / 2.0
        tol = gk.perimeter(oi) + sum(gk.perimeter(pc) for pc in pieces) + 4
        if abs(a0 - a1) > tol:
            raise Violation("%s, vertex limit %d: the polygons in the file have total area %r, the original %r" % (what, limit, a1, a0), case, a0, a1, lines)
        ctx.stats.count("writer_samples", len(samples))
    ctx.stats.note(case, split_any, labels)


def check(ctx, case):
    if case["op"] == "fracture":
        return check_fracture(ctx, case)
    if case["op"] == "writer":
        return check_writer(ctx, case)
    return check_slice(ctx, case)


def run_worker(ctx):
    q = ctx.tier == "quick"
    vs = []
    for name, strat, total in (("fracture", fracture_case(not q), 6000 if q else 20000), ("slice", slice_case(not q), 6000 if q else 20000),
                               ("writer", writer_case(not q), 1500 if q else 10000)):
        v = ctx.hypothesis(check, strat, ctx.share(total), name)
        if v:
            vs.append(v)
    return vs


def replay(ctx, test, case, ignore_known=False):
    return check(ctx, case)
