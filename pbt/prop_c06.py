"""C06 - flattening and hierarchy queries preserve the layout geometry."""
import math

from hypothesis import strategies as st

from common import Violation, fl, hx
import layoutgen as lg
import flatmodel as fm
import repgen

LEVEL = "exploration"
RULE = ("Hypothesis cases: an acyclic hierarchy (2-4 cells, shared sub-cells, depth <= 3) with polygons, 1-2 element flexpaths with "
        "offsets (scale_width both ways, circular bends on half of the outline paths), robust paths, labels, every repetition kind on elements and references (counts <= 3), "
        "references with rotation x magnification x reflection, followed by a history of operations: get_polygons / "
        "get_flexpaths / get_robustpaths / get_labels with (apply_repetitions, include_paths, depth in {0,1,2,-1}, filter "
        "on/off with present or absent tags), flatten(apply_repetitions), deep Cell::copy_from + mutation of the copy. Oracle: "
        "the hierarchy is flattened by hand in Python (matrix products, repetition offsets added after the reference's own "
        "transform, depth cut at exactly the requested level, tag filter); every query result - with any repetition left "
        "attached expanded by the model - must equal the expectation as a multiset: polygons vertex by vertex, labels by "
        "text/tag/placement matrix, flexpaths structurally (spine, half widths, offsets, extensions), robust paths through "
        "position/width/offset evaluation, path outlines against paths re-constructed from pre-transformed arguments. "
        "Non-trivial: depth >= 2 reachable, an element repetition under a reference whose transform is not a pure "
        "translation, and a path with non-zero offset; distinct by case hash")
ASSUMPTIONS = ["magnifications are positive (references with negative magnification are not meaningful in GDSII/OASIS)",
               "known finding C06-K1: get_polygons(include_paths) through a magnified reference of a scale_width=false path is not judged",
               "tolerance 1e-9 relative to the coordinate magnitude; outlines with round features compared by vertex Hausdorff distance <= 3 x tolerance x magnification"]

small_rep = lg.grid_rep(counts=st.sampled_from([1, 2, 2, 3]), size=300)


@st.composite
def case_strategy(draw):
    lib = draw(lg.library(ncells=(2, 4), size=400, origin_mag=0, props=lambda: st.just([]), path_kinds=("outline_fp", "simple_fp", "rp"),
                          unit_choices=((1e-6, 1e-9),), allow_name_refs=True, elements=(0, 2), rep_st=small_rep, small_counts=True, npaths=(0, 2),
                          nlabels=(0, 1), nrefs=(0, 2)))
    n = len(lib["cells"])
    # make deep chains common: cell i references cell i+1 unless drawn otherwise
    for i in range(n - 1):
        if draw(st.integers(0, 9)) < 7 and not any(r["kind"] == "cell" and r["target"] == i + 1 for r in lib["cells"][i]["refs"]):
            r = draw(lg.reference(1, size=400, props=lambda: st.just([]), allow_name=False, rep_st=small_rep, small_counts=True))
            r["kind"], r["target"] = "cell", i + 1
            lib["cells"][i]["refs"].append(r)
    # circular bends on some outline flexpaths (segments are 150..400 long and turn by at most 1.5 rad: a radius of 50 fits, and
    # stays above offset + half width = 30); the radius follows the magnification whatever scale_width says
    for c in lib["cells"]:
        for p in c["paths"]:
            if p["kind"] == "fp" and not p["simple"] and draw(st.booleans()):
                for e in p["els"]:
                    e["bend"] = 50.0
    # a magnification of 1e-3 shrinks path segments below the path tolerance (degenerate paths, outside the property's domain)
    for c in lib["cells"]:
        for r in c["refs"]:
            if r["mag"] < 0.1:
                r["mag"] = 0.25
    # bound the size of the flattened layout (the oracle and the driver enumerate every copy): strip reference
    # repetitions, deepest cells first, until the top cell expands to at most 300 shapes
    def expanded(ci):
        c = lib["cells"][ci]
        own = sum(repgen.count(e["rep"]) if e.get("rep") is not None else 1 for e in c["polys"] + c["paths"] + c["labels"])
        return own + sum((repgen.count(r["rep"]) if r["rep"] is not None else 1) * expanded(r["target"]) for r in c["refs"] if r["kind"] == "cell")
    for ci in range(n - 1, -1, -1):
        if expanded(0) <= 300:
            break
        for r in lib["cells"][ci]["refs"]:
            if expanded(0) > 300:
                r["rep"] = None
    tags = sorted({tuple(p["tag"]) for c in lib["cells"] for p in c["polys"]} | {tuple(e["tag"]) for c in lib["cells"] for p in c["paths"] for e in p["els"]} |
                  {tuple(l["tag"]) for c in lib["cells"] for l in c["labels"]}) or [(0, 0)]
    ops = []
    for _ in range(draw(st.integers(2, 7))):
        k = draw(st.sampled_from(["polys", "polys", "labels", "fps", "rps", "flatten", "copy"]))
        ci = draw(st.sampled_from([0, 0, 0] + list(range(n))))
        ar = draw(st.booleans())
        depth = draw(st.sampled_from([0, 1, 2, -1, -1]))
        ft = draw(st.one_of(st.none(), st.none(), st.sampled_from(tags).map(list), st.just([999, 9])))
        if k == "polys":
            ops.append(["polys", ci, ar, draw(st.booleans()), depth, ft])
        elif k in ("labels", "fps", "rps"):
            ops.append([k, ci, ar, depth, ft])
        elif k == "flatten":
            ops.append(["flatten", ci, ar])
            # a flattened cell holds transformed copies of its descendants: query them right away, often with a filter
            if draw(st.booleans()):
                k2 = draw(st.sampled_from(["polys", "labels", "fps", "rps", "rps"]))
                ft2 = draw(st.one_of(st.none(), st.sampled_from(tags).map(list), st.sampled_from(tags).map(list)))
                ar2 = draw(st.booleans())
                if k2 == "polys":
                    ops.append(["polys", ci, ar2, draw(st.booleans()), draw(st.sampled_from([0, -1])), ft2])
                else:
                    ops.append([k2, ci, ar2, draw(st.sampled_from([0, -1])), ft2])
        else:
            ops.append(["copy", ci])
    return {"lib": lib, "ops": ops}


def label_matrix(l):
    return fm.Aff.placement(l["mag"], l["xr"], l["rot"], l["origin"][0], l["origin"][1])


def expand_dump_rep(rep, g):
    if rep is None:
        return [(0.0, 0.0)]
    r = dict(rep)
    return [(x / g, y / g) for x, y in repgen.offsets(r)]


def has_known_k1(lib, ci, depth, M=None):
    """is a scale_width=false path reachable from cell ci within depth under a total magnification != 1 ?"""
    M = M or fm.Aff()
    c = lib["cells"][ci]
    for p in c["paths"]:
        A = M * p.get("A0", fm.Aff())
        if not p["scale_width"] and abs(A.scale() - 1.0) > 1e-12:
            return True
    if depth != 0:
        for r in c["refs"]:
            if r["kind"] == "cell":
                for P in fm.ref_placements(r)[:1]:
                    if has_known_k1(lib, r["target"], depth - 1 if depth > 0 else -1, M * P):
                        return True
    return False


def constructed_fp_lines(pid, p, A, g):
    """driver lines building the flexpath p as it must look after the affine map A: same calls on pre-transformed arguments"""
    m = A.scale()
    s = -1.0 if A.reflects() else 1.0
    sp = [A((x, y)) for x, y in p["spine"]]
    els = " ".join("%s %s %d %d" % (fl(e["w"] * (m if p["scale_width"] else 1.0) * g), fl(e["off"] * m * s * g), e["tag"][0], e["tag"][1]) for e in p["els"])
    lines = ["fp new %s %s %s %d %s 0 %d %s" % (pid, fl(sp[0][0] * g), fl(sp[0][1] * g), len(p["els"]), fl(p["tol"] * g), 1 if p["scale_width"] else 0, els)]
    for i, e in enumerate(p["els"]):
        lines.append("fp elem %s %d %d %d %s %s %s" % (pid, i, e.get("join", 0), lg.END_CODE[e["end"]], fl(e["ext"][0] * m * g), fl(e["ext"][1] * m * g),
                                                      ("1 " + fl(e["bend"] * m * g)) if e.get("bend") else "0 0"))
    lines.append("fp seg %s 0 %d %s - -" % (pid, len(sp) - 1, " ".join(fl(c * g) for q in sp[1:] for c in q)))
    return lines


def check(ctx, case):
    lib = {"name": case["lib"]["name"], "unit": case["lib"]["unit"], "precision": case["lib"]["precision"],
           "cells": [dict(c, polys=list(c["polys"]), paths=list(c["paths"]), labels=list(c["labels"]), refs=list(c["refs"])) for c in case["lib"]["cells"]]}
    g = lib["precision"] / lib["unit"]
    lines, qindex = lg.build_script(lib, "L", queries=True)
    rp_index = []
    for ci_, c_ in enumerate(lib["cells"]):
        for pi_, p_ in enumerate(c_["paths"]):
            if p_["kind"] == "rp":
                lines.append("rp topoly L.c%d.w%d 0 0 0 -" % (ci_, pi_))
                rp_index.append((ci_, pi_))
    for ci_, pi_ in rp_index:
        lines.append("rp eval L.c%d.w%d 4 0x0p+0 0 %s 0 0x1p+0 0 0x1.8p+0 0" % (ci_, pi_, fl(0.37)))
    nq0 = len(qindex)
    nq = nq0 + 2 * len(rp_index)
    expect = []     # (kind, data...) per output after the build outputs
    extra_id = [0]
    labels = set()
    k1_skipped = 0
    for op in case["ops"]:
        kind = op[0]
        ci = op[1]
        cid = "L.c%d" % ci
        if kind == "polys":
            _, _, ar, ip, depth, ft = op
            if ip and "C06-K1" in ctx.known_ids and not getattr(ctx, "strict", False) and has_known_k1(lib, ci, depth):
                k1_skipped += 1
                ip = False
            tg = ft or [0, 0]
            lines.append("hier get_polygons %s %d %d %d %d %d %d -" % (cid, 1 if ar else 0, 1 if ip else 0, depth, 1 if ft else 0, tg[0], tg[1]))
            exp = []
            for e, A in flat(lib, ci, depth, "polys"):
                if ft and e["tag"] != ft:
                    continue
                exp.append({"tag": e["tag"], "pts": [A((x, y)) for x, y in e["pts"]]})
            outl = []
            if ip:
                # outlines of paths: constructed expectation (flexpaths) / mapped outline (robust paths, identity cases only)
                for e, A in flat(lib, ci, depth, "fps"):
                    pid = "X%d" % extra_id[0]
                    extra_id[0] += 1
                    lines += constructed_fp_lines(pid, e, A, g)
                    lines.append("fp topoly %s %d %d %d -" % (pid, 1 if ft else 0, tg[0], tg[1]))
                    outl.append(("constructed", e, A))
                for e, A in flat(lib, ci, depth, "rps"):
                    outl.append(("mapped", e, A))
            expect.append(("polys", exp, outl, op))
            labels.add("q_polys_depth%d" % depth)
        elif kind == "labels":
            _, _, ar, depth, ft = op
            tg = ft or [0, 0]
            lines.append("hier get_labels %s %d %d %d %d %d -" % (cid, 1 if ar else 0, depth, 1 if ft else 0, tg[0], tg[1]))
            exp = []
            for e, A in flat(lib, ci, depth, "labels"):
                if ft and e["tag"] != ft:
                    continue
                exp.append({"text": e["text"], "tag": e["tag"], "anchor": e["anchor"], "M": A * label_matrix_local(e)})
            expect.append(("labels", exp, op))
        elif kind == "fps":
            _, _, ar, depth, ft = op
            tg = ft or [0, 0]
            lines.append("hier get_flexpaths %s %d %d %d %d %d -" % (cid, 1 if ar else 0, depth, 1 if ft else 0, tg[0], tg[1]))
            exp = []
            for e, A in flat(lib, ci, depth, "fps"):
                els = [el for el in e["els"] if (not ft or el["tag"] == ft)]
                if not els:
                    continue
                exp.append({"p": e, "els": els, "A": A})
            expect.append(("fps", exp, op))
        elif kind == "rps":
            _, _, ar, depth, ft = op
            tg = ft or [0, 0]
            pref = "Q%d" % extra_id[0]
            extra_id[0] += 1
            lines.append("hier get_robustpaths %s %d %d %d %d %d %s" % (cid, 1 if ar else 0, depth, 1 if ft else 0, tg[0], tg[1], pref))
            exp = []
            for e, A in flat(lib, ci, depth, "rps"):
                idx = [i for i, el in enumerate(e["els"]) if (not ft or el["tag"] == ft)]
                if not idx:
                    continue
                exp.append({"p": e, "idx": idx, "A": A})
            expect.append(("rps", exp, op, pref))
            # evaluation of every returned path happens in a second script (their number is only known afterwards)
        elif kind == "flatten":
            _, _, ar = op
            lines.append("hier flatten %s %d" % (cid, 1 if ar else 0))
            expect.append(("flatten", sum(1 for r in lib["cells"][ci]["refs"] if r["kind"] == "cell")))
            c = lib["cells"][ci]
            newc = {"name": c["name"], "polys": [], "paths": [], "labels": [], "refs": [r for r in c["refs"] if r["kind"] != "cell"]}
            for e, A in flat(lib, ci, -1, "polys"):
                newc["polys"].append({"tag": e["tag"], "pts": [list(A((x, y))) for x, y in e["pts"]], "rep": None, "props": []})
            for e, A in flat(lib, ci, -1, "labels"):
                M = A * label_matrix_local(e)
                newc["labels"].append({"text": e["text"], "tag": e["tag"], "anchor": e["anchor"], "Mfixed": M, "rep": None, "props": []})
            for e, A in flat(lib, ci, -1, "fps") + flat(lib, ci, -1, "rps"):
                d = dict(e)
                d["_orig"] = e.get("_orig", e)
                d["A0"] = A
                d["rep"] = None
                newc["paths"].append(d)
            lib["cells"][ci] = newc
            labels.add("flatten")
        elif kind == "copy":
            h = "K%d" % extra_id[0]
            extra_id[0] += 1
            lines.append("dump cell %s" % cid)
            lines.append("cell copy %s %s %s 1" % (h, cid, hx("COPY%d" % extra_id[0])))
            lines.append("hier remap cell %s 1 0 0 77 7" % h)
            lines.append("hier flatten %s 1" % h)
            lines.append("dump cell %s" % cid)
            expect.append(("copy_before",))
            expect.append(("flatten_copy",))
            expect.append(("copy_after",))
            labels.add("copy")
    outs = ctx.run(lines, case)
    # path outline errors in the originals: outside the subject
    for i in range(nq0 + len(rp_index)):
        q = outs[i]
        errs = [c["err"] for c in q["centers"]] if "centers" in q else [q["err"]]
        if any(e != 0 for e in errs):
            ctx.stats.note(case, False, ["path_outline_error"])
            return
    orig_outline = {}
    orig_eval = {}
    for i, (ci_, pi_) in enumerate(rp_index):
        orig_outline[id(case["lib"]["cells"][ci_]["paths"][pi_])] = outs[nq0 + i]
        orig_eval[id(case["lib"]["cells"][ci_]["paths"][pi_])] = outs[nq0 + len(rp_index) + i]["eval"]
    res = outs[nq:]
    pos = 0

    def fail(msg, e=None, o=None):
        raise Violation(msg, case, e, o, lines)
    before = None
    followups = []
    for e in expect:
        if e[0] == "polys":
            _, exp, outl, op = e
            o = res[pos]
            pos += 1
            got = []
            for p in o["result"]:
                pts = [(x / g, y / g) for x, y in p["pts"]]
                for off in expand_dump_rep(p["rep"], g):
                    got.append({"tag": p["tag"], "pts": [(x + off[0], y + off[1]) for x, y in pts]})
            scale = max([1.0] + [abs(v) for q in got for pt in q["pts"] for v in pt] + [abs(v) for q in exp for pt in q["pts"] for v in pt])
            tol = 1e-9 * scale
            miss, rest = fm.match_multiset(exp, got, lambda a, b: a["tag"] == b["tag"] and fm.pts_close(a["pts"], b["pts"], tol))
            if miss is not None:
                fail("%s on cell %d: polygon tag %s %s (composed by hand) is missing from the result%s" %
                     (op, op[1], miss["tag"], [tuple(round(v, 6) for v in p) for p in miss["pts"][:4]],
                      " (repetitions left attached were expanded by the model)" if not op[2] else ""), miss, rest[:3])
            # the rest must be the path outlines
            want_outl = []
            for how, pe, A in outl:
                if how == "constructed":
                    oo = res[pos]
                    pos += 1
                    for q in oo["result"]:
                        want_outl.append({"tag": q["tag"], "pts": [(x / g, y / g) for x, y in q["pts"]], "tol": pe["tol"] * 3 * max(1.0, A.scale()) + tol})
                else:
                    if not (pe["scale_width"] or abs(A.scale() - 1) < 1e-12):
                        continue
                    src = orig_outline.get(id(pe.get("_orig", pe)))
                    if src is None:
                        continue
                    for q in src["result"]:
                        if op[5] and q["tag"] != op[5]:
                            continue
                        want_outl.append({"tag": q["tag"], "pts": [A((x / g, y / g)) for x, y in q["pts"]], "tol": pe["tol"] * 3 * max(1.0, A.scale()) + tol})
            if op[3]:
                # robust paths whose expectation could not be constructed are removed from judgement: only judge when every
                # outline has an expectation
                complete = all(how == "constructed" or pe["scale_width"] or abs(A.scale() - 1) < 1e-12 for how, pe, A in outl)
                if complete:
                    miss, rest2 = fm.match_multiset(want_outl, rest, lambda a, b: a["tag"] == b["tag"] and (fm.outline_close(a["pts"], b["pts"], a["tol"]) or fm.region_close(a["pts"], b["pts"], a["tol"])))
                    if miss is not None:
                        fail("%s on cell %d: the outline of a path (tag %s, first vertices %s) expected from the path re-constructed with transformed "
                             "arguments is missing" % (op, op[1], miss["tag"], [tuple(round(v, 4) for v in p) for p in miss["pts"][:3]]), miss, rest[:3])
                    if rest2:
                        fail("%s on cell %d: %d unexpected polygon(s), e.g. tag %s %s" % (op, op[1], len(rest2), rest2[0]["tag"], rest2[0]["pts"][:3]))
                else:
                    ctx.stats.count("outline_queries_not_judged_rp_noscale")
            elif rest:
                fail("%s on cell %d: %d unexpected polygon(s), e.g. tag %s %s" % (op, op[1], len(rest), rest[0]["tag"], rest[0]["pts"][:3]))
        elif e[0] == "labels":
            _, exp, op = e
            o = res[pos]
            pos += 1
            got = []
            for l in o["result"]:
                M = fm.Aff.placement(l["mag"], l["xrefl"], l["rotation"], l["origin"][0] / g, l["origin"][1] / g)
                for off in expand_dump_rep(l["rep"], g):
                    got.append({"text": bytes.fromhex(l["text"] or "").decode("latin-1"), "tag": l["tag"], "anchor": l["anchor"], "M": fm.Aff.translation(*off) * M})

            def leq(a, b):
                if a["text"] != b["text"] or a["tag"] != b["tag"] or a["anchor"] != b["anchor"]:
                    return False
                A, B = a["M"], b["M"]
                sc = max(1.0, abs(A.tx), abs(A.ty))
                return (abs(A.a - B.a) < 1e-9 * max(1, abs(A.a)) and abs(A.b - B.b) < 1e-9 * max(1, abs(A.b)) and abs(A.c - B.c) < 1e-9 * max(1, abs(A.c)) and
                        abs(A.d - B.d) < 1e-9 * max(1, abs(A.d)) and abs(A.tx - B.tx) < 1e-9 * sc and abs(A.ty - B.ty) < 1e-9 * sc)
            miss, rest = fm.match_multiset(exp, got, leq)
            if miss is not None:
                fail("%s on cell %d: label %r expected at %s with placement matrix [%g %g; %g %g] is missing%s" %
                     (op, op[1], miss["text"], (round(miss["M"].tx, 6), round(miss["M"].ty, 6)), miss["M"].a, miss["M"].b, miss["M"].c, miss["M"].d,
                      " (attached repetitions expanded by the model)" if not op[2] else ""), None, [(r["text"], r["M"].tx, r["M"].ty) for r in rest[:4]])
            if rest:
                fail("%s on cell %d: %d unexpected label(s)" % (op, op[1], len(rest)))
        elif e[0] == "fps":
            _, exp, op = e
            o = res[pos]
            pos += 1
            got = []
            for f in o["result"]:
                for off in expand_dump_rep(f["rep"], g):
                    got.append({"spine": [(x / g + off[0], y / g + off[1]) for x, y in f["spine"]], "scale_width": f["scale_width"], "simple": f["simple"],
                                "els": [{"tag": el["tag"], "hw": [h[0] / g for h in el["hwo"]], "off": [h[1] / g for h in el["hwo"]], "end": el["end"],
                                         "ext": [el["ext"][0] / g, el["ext"][1] / g], "bend": (el["bend_radius"] / g) if el["bend"] else 0.0} for el in f["elements"]]})

            def feq(a, b):
                p, A = a["p"], a["A"]
                m = A.scale()
                s = -1.0 if A.reflects() else 1.0
                sp = [A((x, y)) for x, y in p["spine"]]
                sc = max([1.0] + [abs(v) for q in sp for v in q])
                if not fm.pts_close(sp, b["spine"], 1e-9 * sc) or b["scale_width"] != p["scale_width"] or len(b["els"]) != len(a["els"]):
                    return False
                for ea, eb in zip(a["els"], b["els"]):
                    hw = ea["w"] / 2 * (m if p["scale_width"] else 1.0)
                    of = ea["off"] * m * s
                    if eb["tag"] != ea["tag"] or eb["end"] != lg.END_CODE[ea["end"]]:
                        return False
                    if any(abs(h - hw) > 1e-9 * max(1, abs(hw)) for h in eb["hw"]) or any(abs(x - of) > 1e-9 * max(1, abs(of)) for x in eb["off"]):
                        return False
                    if abs(eb["bend"] - ea.get("bend", 0.0) * m) > 1e-9 * max(1, ea.get("bend", 0.0) * m):
                        return False
                    if ea["end"] == "extended" and (abs(eb["ext"][0] - ea["ext"][0] * m) > 1e-9 * max(1, abs(ea["ext"][0] * m)) or
                                                    abs(eb["ext"][1] - ea["ext"][1] * m) > 1e-9 * max(1, abs(ea["ext"][1] * m))):
                        return False
                return True
            miss, rest = fm.match_multiset(exp, got, feq)
            if miss is not None:
                A = miss["A"]
                fail("%s on cell %d: flexpath with spine start %s mapped by (mag %g, reflect %s, rot %g) must come back with spine start %s, offsets %s, "
                     "half widths %s; no returned path matches%s" %
                     (op, op[1], miss["p"]["spine"][0], A.scale(), A.reflects(), A.rotation(), tuple(round(v, 6) for v in A(tuple(miss["p"]["spine"][0]))),
                      [el["off"] * A.scale() * (-1 if A.reflects() else 1) for el in miss["els"]],
                      [el["w"] / 2 * (A.scale() if miss["p"]["scale_width"] else 1) for el in miss["els"]],
                      " (attached repetitions expanded by the model)" if not op[2] else ""),
                     None, [{"spine0": r["spine"][0], "off": [el["off"][0] for el in r["els"]], "hw": [el["hw"][0] for el in r["els"]]} for r in rest[:4]])
            if rest:
                fail("%s on cell %d: %d unexpected flexpath(s)" % (op, op[1], len(rest)))
        elif e[0] == "rps":
            _, exp, op, pref = e
            o = res[pos]
            pos += 1
            check_rps(ctx, case, lines, g, exp, op, o, orig_eval, fail)
        elif e[0] == "flatten":
            o = res[pos]
            pos += 1
            if o["removed"] != e[1]:
                fail("flatten removed %d references, the cell had %d references to cells" % (o["removed"], e[1]))
        elif e[0] == "copy_before":
            before = res[pos]
            pos += 1
        elif e[0] == "flatten_copy":
            pos += 1
        elif e[0] == "copy_after":
            after = res[pos]
            pos += 1
            if before != after:
                fail("editing and flattening a deep copy changed the source cell", before, after)
    nt = False
    deep = any(r["kind"] == "cell" and any(r2["kind"] == "cell" for r2 in case["lib"]["cells"][r["target"]]["refs"]) for c in case["lib"]["cells"] for r in c["refs"])
    rep_under = any(r["kind"] == "cell" and (r["rot"] != 0 or r["xr"] or r["mag"] != 1) and
                    any(e.get("rep") is not None for e in case["lib"]["cells"][r["target"]]["polys"] + case["lib"]["cells"][r["target"]]["paths"] +
                        case["lib"]["cells"][r["target"]]["labels"]) for c in case["lib"]["cells"] for r in c["refs"])
    offp = any(e["off"] != 0 for c in case["lib"]["cells"] for p in c["paths"] for e in p["els"])
    nt = deep and rep_under and offp
    if k1_skipped:
        ctx.stats.count("known_C06-K1_include_paths_not_judged", k1_skipped)
    for lab, v in (("depth>=2", deep), ("rep_under_transformed_ref", rep_under), ("path_with_offset", offp)):
        if v:
            labels.add(lab)
    ctx.stats.note(case, nt, sorted(labels))


def flat(lib, ci, depth, want):
    """(element, total affine) pairs incl. the element's own repetition and any affine it already carries (after a flatten)"""
    out = []
    for e, off, M in fm.flatten(lib, ci, depth, want):
        A0 = e.get("A0")
        A = M * fm.Aff.translation(off[0], off[1])
        if A0 is not None:
            A = A * A0
        out.append((e, A))
    return out


def label_matrix_local(l):
    if "Mfixed" in l:
        return l["Mfixed"]
    return label_matrix(l)


def check_rps(ctx, case, lines, g, exp, op, o, orig_eval, fail):
    got = []
    for r, ev in zip(o["result"], o["evals"]):
        for off in expand_dump_rep(r["rep"], g):
            got.append({"tags": [el["tag"] for el in r["elements"]], "ev": ev, "off": off, "scale_width": r["scale_width"]})
    want = []
    for x in exp:
        ev = orig_eval.get(id(x["p"].get("_orig", x["p"])))
        if ev is None:
            ctx.stats.count("rp_without_original_eval")
            return
        want.append({"x": x, "ev": ev})

    def req(a, b):
        x = a["x"]
        p, A = x["p"], x["A"]
        m = A.scale()
        s = -1.0 if A.reflects() else 1.0
        if b["tags"] != [p["els"][i]["tag"] for i in x["idx"]]:
            return False
        for ea, eb in zip(a["ev"], b["ev"]):
            pa = A((ea["pos"][0] / g, ea["pos"][1] / g))
            pb = (eb["pos"][0] / g + b["off"][0], eb["pos"][1] / g + b["off"][1])
            sc = max(1.0, abs(pa[0]), abs(pa[1]))
            if abs(pa[0] - pb[0]) > 1e-8 * sc or abs(pa[1] - pb[1]) > 1e-8 * sc:
                return False
            for k, i in enumerate(x["idx"]):
                w = ea["width"][i] / g * (m if p["scale_width"] else 1.0)
                o_ = ea["offset"][i] / g * m * s
                if abs(eb["width"][k] / g - w) > 1e-8 * max(1, abs(w)) or abs(eb["offset"][k] / g - o_) > 1e-8 * max(1, abs(o_)):
                    return False
        return True
    miss, rest = fm.match_multiset(want, got, req)
    if miss is not None:
        A = miss["x"]["A"]
        fail("%s on cell %d: a robust path mapped by (mag %g, reflect %s, rot %g) has no counterpart whose position/width/offset evaluate to the mapped values"
             % (op, op[1], A.scale(), A.reflects(), A.rotation()), miss["ev"][:2], [r["ev"][:2] for r in rest[:2]])
    if rest:
        fail("%s on cell %d: %d unexpected robust path(s)" % (op, op[1], len(rest)))


def run_worker(ctx):
    n = 2000 if ctx.tier == "quick" else 20000
    v = ctx.hypothesis(check, case_strategy(), ctx.share(n), "hierarchy")
    return [v] if v else []


def replay(ctx, test, case, ignore_known=False):
    ctx.strict = ignore_known
    try:
        return check(ctx, case)
    finally:
        ctx.strict = False
