"""C11 - repetitions enumerate exactly their offsets and expand into exactly those copies."""
import math

from hypothesis import strategies as st

from common import Violation, fl, hx
import repgen

LEVEL = "exploration"
RULE = ("Hypothesis cases: a repetition of any kind (rows/columns from {0,1,2,3,7,40}, spacings/vectors of either sign and "
        "zero on a 1/8 grid or arbitrary doubles, explicit lists of length 0..30 with negatives, duplicates and explicit "
        "zeros) attached to an element of a drawn kind (polygon, label, reference, 1-3 element flexpath, 1-3 element "
        "robustpath) carrying properties; compared with my own enumeration: get_count, get_offsets (zero first), "
        "get_extrema (members, spanning the bounding box), apply_repetition (count-1 deep copies, each offset used once, "
        "original left without repetition, copies independent), Repetition::transform (multiset of vectors mapped by the "
        "linear part). Non-trivial: count >= 3 with a negative or duplicate vector, or an element with properties and "
        ">= 2 path elements, or a zero count / empty list; distinct by case hash")
ASSUMPTIONS = ["a zero row/column count denotes the empty set (count 0, no copies); an empty explicit list denotes {0}",
               "vectors are compared with relative tolerance 1e-12 (transform: 1e-9)"]

coord_any = st.one_of(repgen.grid8, repgen.grid8, st.floats(-1e3, 1e3, allow_nan=False).map(lambda x: round(x, 6)))
counts = st.sampled_from([0, 1, 1, 2, 2, 3, 3, 7, 40])


@st.composite
def case_strategy(draw):
    rep = draw(repgen.repetition(coord=coord_any, allow_zero=True, counts=counts, max_explicit=30))
    kind = draw(st.sampled_from(["poly", "label", "ref", "fp", "rp", "poly", "fp"]))
    nel = draw(st.integers(1, 3))
    nprops = draw(st.integers(0, 3))
    props = [(draw(st.sampled_from(["a", "b", "S_GDS_PROPERTY"])), draw(st.integers(0, 1000))) for _ in range(nprops)]
    xf = (draw(st.sampled_from([1.0, 2.0, 0.5, -1.0, 1.0 / 3])), draw(st.booleans()),
          draw(st.sampled_from([0.0, math.pi / 2, math.pi, -math.pi / 2, 0.3, 1.0, 4.0, -2.5])))
    mutate = draw(st.booleans())
    return {"rep": rep, "kind": kind, "nel": nel, "props": props, "xf": list(xf), "mutate": mutate}


def build_element(kind, nel):
    if kind == "poly":
        return ["poly new e 3 4 4 0 0 2 0 2 1 0.5 1.5"]
    if kind == "label":
        return ["label new e %s 5 6 1.5 -2.5 5 0.25 2 1" % hx("text")]
    if kind == "ref":
        return ["cell new c0 %s" % hx("CHILD"), "poly new cp 1 0 3 0 0 1 0 0 1", "cell add c0 poly cp",
                "ref new e cell c0 1 2 0.5 1.5 1"]
    if kind == "fp":
        els = " ".join("%s %s %d %d" % (fl(0.5 + 0.25 * i), fl(i * 1.0), i + 1, i) for i in range(nel))
        w = "W " + " ".join(fl(0.25 + 0.125 * i) for i in range(nel))
        o = "W " + " ".join(fl(0.5 * i) for i in range(nel))
        return ["fp new e 0 0 %d 0.01 0 1 %s" % (nel, els), "fp seg e 0 2 4 0 4 3 %s %s" % (w, o),
                "fp elem e 0 1 3 0.5 0.25 1 0.75", "fp arc e 2 2 0 1.5 0 - -"]
    if kind == "rp":
        els = " ".join("%s %s %d %d" % (fl(0.5 + 0.25 * i), fl(i * 1.0), i + 1, i) for i in range(nel))
        w = "W " + " ".join("l %s %s" % (fl(0.5 + 0.25 * i), fl(0.25)) for i in range(nel))
        return ["rp new e 0 0 %d 0.01 1000 0 1 %s" % (nel, els), "rp seg e 0 4 0 %s -" % w,
                "rp elem e 0 3 0.5 0.25", "rp arc e 2 2 -1.5707963267948966 0 0 - -", "rp cubic e 1 1 1 2 0 3 2 - -"]
    raise ValueError(kind)


def close(a, b, tol):
    return abs(a - b) <= tol * max(1.0, abs(a), abs(b))


def vec_multiset_equal(a, b, tol):
    """greedy matching of two vector lists under tolerance (lists are small)."""
    if len(a) != len(b):
        return False
    rest = list(b)
    for v in a:
        hit = None
        for i, w in enumerate(rest):
            if close(v[0], w[0], tol) and close(v[1], w[1], tol):
                hit = i
                break
        if hit is None:
            return False
        rest.pop(hit)
    return True


def strip(d, kind, off):
    """canonical comparison form of an element dump with its position translated back by off."""
    d = dict(d)
    d.pop("rep", None)
    ox, oy = off
    if kind == "poly":
        d["pts"] = [[x - ox, y - oy] for x, y in d["pts"]]
    elif kind in ("label", "ref"):
        d["origin"] = [d["origin"][0] - ox, d["origin"][1] - oy]
    elif kind == "fp":
        d["spine"] = [[x - ox, y - oy] for x, y in d["spine"]]
        d["last_ctrl"] = None
    elif kind == "rp":
        t = list(d["trafo"])
        t[2] -= ox
        t[5] -= oy
        d["trafo"] = t
    return d


def flat_numbers(x, out):
    if isinstance(x, dict):
        for k in sorted(x):
            flat_numbers(x[k], out)
    elif isinstance(x, (list, tuple)):
        for y in x:
            flat_numbers(y, out)
    else:
        out.append(x)


def same_struct(a, b, tol=1e-12):
    fa, fb = [], []
    flat_numbers(a, fa)
    flat_numbers(b, fb)
    if len(fa) != len(fb):
        return False
    for x, y in zip(fa, fb):
        if isinstance(x, float) or isinstance(y, float):
            if x is None or y is None or isinstance(x, (str, bool)) or isinstance(y, (str, bool)):
                if x != y:
                    return False
            elif not close(float(x), float(y), tol):
                return False
        elif x != y:
            return False
    return True


def check(ctx, case):
    rep = case["rep"]
    kind = case["kind"]
    lines = build_element(kind, case["nel"])
    for n, v in case["props"]:
        lines.append("prop %s e set_u %s %d 1" % (kind, hx(n), v))
    lines.append("rep set %s e %s" % (kind, repgen.spec(rep)))
    lines.append("rep count %s e" % kind)      # 0
    lines.append("rep offsets %s e" % kind)    # 1
    lines.append("rep extrema %s e" % kind)    # 2
    # transform on a standalone copy
    m, xr, rot = case["xf"]
    lines.append("rep copy %s e rep r1" % kind)
    lines.append("rep transform rep r1 %s %d %s" % (fl(m), 1 if xr else 0, fl(rot)))
    lines.append("rep offsets rep r1")         # 3
    lines.append("dump %s e" % kind)           # 4
    lines.append("%s apply_rep e x" % kind)    # 5
    lines.append("dump %s e" % kind)           # 6
    mutate = case["mutate"] and kind == "poly"
    if mutate:
        lines.append("poly setpt x.0 0 99 99")
        lines.append("prop poly x.0 set_u %s 5 1" % hx("zz"))
        lines.append("dump poly e")            # 7
        lines.append("dump poly x.1")          # 8 (may not exist -> only when count >= 3)
    model = repgen.offsets(rep)
    n = len(model)
    if mutate and n < 3:
        lines = lines[:-1]
    if mutate and n < 2:
        lines = lines[:-3]
        mutate = False
    outs = ctx.run(lines, case)
    if outs[0]["count"] != n:
        raise Violation("get_count = %d, reference enumeration has %d vectors" % (outs[0]["count"], n), case, n, outs[0], lines)
    offs = [tuple(o) for o in outs[1]["offsets"]]
    if len(offs) != n or any(not (close(a[0], b[0], 1e-12) and close(a[1], b[1], 1e-12)) for a, b in zip(offs, model)):
        # order is part of "zero first"; compare as multiset and insist on the zero vector leading
        if not vec_multiset_equal(offs, model, 1e-12) or (n and offs[0] != (0.0, 0.0)):
            raise Violation("get_offsets differs from the reference enumeration", case, model, offs, lines)
    ext = [tuple(e) for e in outs[2]["extrema"]]
    if n == 0:
        if ext:
            raise Violation("get_extrema of an empty set returned %s" % ext, case, [], ext, lines)
    else:
        if not ext:
            raise Violation("get_extrema returned nothing for a set of %d vectors (it always contains the zero vector)" % n,
                            case, model[:4], ext, lines)
        for e in ext:
            if not any(close(e[0], o[0], 1e-12) and close(e[1], o[1], 1e-12) for o in model):
                raise Violation("extreme offset %s is not a member of the set" % (e,), case, model, ext, lines)
        for axis in (0, 1):
            lo, hi = min(o[axis] for o in model), max(o[axis] for o in model)
            elo, ehi = min(e[axis] for e in ext), max(e[axis] for e in ext)
            if not (close(lo, elo, 1e-12) and close(hi, ehi, 1e-12)):
                raise Violation("extrema span [%r,%r] on axis %d, the set spans [%r,%r]" % (elo, ehi, axis, lo, hi), case,
                                [lo, hi], [elo, ehi], lines)
    # transform
    toffs = [tuple(o) for o in outs[3]["offsets"]]
    expect_t = repgen.transform_offsets(model, m, xr, rot)
    if not vec_multiset_equal(toffs, expect_t, 1e-9):
        raise Violation("Repetition::transform(%r,%r,%r): vectors are not the linear image" % (m, xr, rot), case, expect_t, toffs, lines)
    # apply_repetition
    before = outs[4][kind]
    res = outs[5]["result"]
    after = outs[6][kind]
    if after["rep"] is not None:
        raise Violation("original still carries a repetition after apply_repetition", case, None, after["rep"], lines)
    if not same_struct(strip(before, kind, (0, 0)), strip(after, kind, (0, 0)), 0):
        raise Violation("apply_repetition changed the original element", case, before, after, lines)
    want = max(n - 1, 0)
    if len(res) != want:
        raise Violation("apply_repetition produced %d copies, expected %d" % (len(res), want), case, want, len(res), lines)
    rest = list(model[1:])
    base = strip(before, kind, (0, 0))
    for r in res:
        if r["rep"] is not None:
            raise Violation("a copy carries a repetition", case, None, r["rep"], lines)
        hit = None
        rr = strip(r, kind, (0, 0))
        for i, o in enumerate(rest):
            # translate the original forward (comparing at the copy's magnitude keeps the tolerance relative)
            if same_struct(rr, strip(before, kind, (-o[0], -o[1])), 1e-12):
                hit = i
                break
        if hit is None:
            raise Violation("a copy is not the original translated by an unused offset (or differs in some field)", case,
                            {"original": before, "unused_offsets": rest[:6]}, r, lines)
        rest.pop(hit)
    if mutate:
        e_after = outs[7]["poly"]
        if not same_struct(strip(e_after, "poly", (0, 0)), strip(after, "poly", (0, 0)), 0):
            raise Violation("mutating one copy changed the original (shallow copy)", case, after, e_after, lines)
        if n >= 3:
            other = outs[8]["poly"]
            if [p["name"] for p in other["props"]] != [p["name"] for p in before["props"]] or other["pts"][0] == [99.0, 99.0]:
                raise Violation("mutating one copy changed another copy (shallow copy)", case, before["props"], other, lines)
    neg_or_dup = any(o[0] < 0 or o[1] < 0 for o in model) or len(set(model)) < len(model)
    nontrivial = (n >= 3 and neg_or_dup) or (case["props"] and case["nel"] >= 2 and kind in ("fp", "rp")) or n == 0 or \
                 (rep["type"].startswith("explicit") and n == 1)
    ctx.stats.note(case, bool(nontrivial), ["kind_" + kind, "rep_" + rep["type"], "count_%s" % ("0" if n == 0 else "1" if n == 1 else "2+"),
                                            "mutate" if mutate else "nomutate"])


def run_worker(ctx):
    n = 4000 if ctx.tier == "quick" else 60000
    v = ctx.hypothesis(check, case_strategy(), ctx.share(n), "rep")
    return [v] if v else []


def replay(ctx, test, case, ignore_known=False):
    return check(ctx, case)
