"""C16 - library edits keep the cell graph consistent (model-based histories)."""
from hypothesis import strategies as st

from common import Violation, hx

LEVEL = "exploration"
RULE = ("operation histories (<= 25 steps quick, <= 60 thorough) over a library with cells, raw cells (obtained by read_rawcells of "
        "a file written first), references of all three kinds incl. by-name references to absent cells and shared "
        "sub-cells: add/remove cell, add reference (by pointer, by raw cell, by name), rename_cell (by name / by pointer, to a "
        "fresh name that may be shorter or longer and share a prefix with other names), the four replace_cell overloads "
        "(old present or absent in the library, same or different name), remap_tags with maps that chain and collide, "
        "Library::copy_from / Cell::copy_from deep and shallow followed by edits of the copy; after EVERY step the "
        "library's cell_array/rawcell_array, every reference (kind + target identity + target name), the element tags of "
        "every cell, top_level, get_dependencies(recursive 0/1), get_raw_dependencies, get_shape_tags/get_label_tags and "
        "get_cell/get_rawcell are compared with an abstract graph model in Python. Non-trivial: >= 1 rename or replace that "
        "actually rewrote a reference, followed by >= 1 query; distinct by case hash")
ASSUMPTIONS = ["names are unique across all live cells and raw cells (the library documents that it assumes this)",
               "dependency and top-level queries are defined over by-pointer references (reference.hpp: by-name references 'are limited in their use')",
               "a deep copy creates new cells whose references keep pointing at the original targets (library.hpp)"]

NAMES = ["A", "AB", "ABC", "ABCD", "ADDER_A", "ADDER_B", "ADD", "MUX", "MUX_2", "MUX_21", "X", "Y1", "Y12", "top", "TOP", "cell_with_a_long_name", "c", "Z9"]
TAGS = [[1, 0], [2, 0], [3, 1], [4, 0], [5, 5], [1, 1]]
# remap tables may also name tags that no element carries (keys) or that no element carried before (values)
REMAP_TAGS = TAGS + [[10 + i, i % 3] for i in range(14)]


def op_strategy(maxops):
    i = st.integers(0, 7)
    single = st.one_of(
        st.tuples(st.just("add_cell"), i),
        st.tuples(st.just("remove_cell"), i),
        st.tuples(st.just("add_ref"), i, st.sampled_from(["cell", "cell", "raw", "name", "absent"]), i),
        st.tuples(st.just("add_ref"), i, st.sampled_from(["cell", "cell", "raw", "name", "absent"]), i),
        st.tuples(st.just("rename"), st.sampled_from(["byname", "byptr"]), i, i),
        st.tuples(st.just("rename"), st.sampled_from(["byname", "byptr"]), i, i),
        st.tuples(st.just("replace"), st.sampled_from(["cc", "cc", "rc", "cr", "rr"]), i, i, st.booleans(), st.booleans()),
        st.tuples(st.just("replace"), st.sampled_from(["cc", "cc", "rc", "cr", "rr"]), i, i, st.booleans(), st.booleans()),
        st.tuples(st.just("remap"), st.sampled_from(["lib", "cell"]), i, st.one_of(st.lists(st.tuples(st.integers(0, 5), st.integers(0, 5)), min_size=1, max_size=4),
                                                                             # large maps: the TagMap grows (5th and 9th entry) while it is filled
                                                                             st.lists(st.tuples(st.integers(0, 19), st.integers(0, 19)), min_size=5, max_size=16))),
        st.tuples(st.just("copy_lib"), st.booleans(), i),
        st.tuples(st.just("copy_cell"), i, st.booleans(), i),
    )
    return st.lists(single, min_size=1, max_size=maxops)


class Model:
    def __init__(self):
        self.cells = {}     # handle -> {"name", "ptags": [...], "ltags": [...], "ftags": [...], "refs": [{"kind", "target"}]}
        self.raws = {}      # handle -> {"name", "deps": [handles]}
        self.lib_cells = []
        self.lib_raws = []
        self.counter = 0
        self.used_names = set()
        self.retired = set()   # objects replaced by a same-named object: never brought back (names stay unique)

    def fresh_name(self, k):
        for d in range(len(NAMES)):
            n = NAMES[(k + d) % len(NAMES)]
            if n not in self.used_names:
                return n
        self.counter += 1
        return "N%d" % self.counter

    def live_names(self):
        return {c["name"] for c in self.cells.values()} | {r["name"] for r in self.raws.values()}


def build_initial(m, lines, rawpath):
    # raw cells: a small separate library written to a file, then read back as raw cells
    lines.append("lib new RL %s 1e-6 1e-9" % hx("RAWLIB"))
    rn = ["RAW_A", "RAW_B", "RAW_C"]
    for k, n in enumerate(rn):
        lines.append("cell new rl%d %s" % (k, hx(n)))
        lines.append("poly new rlp%d 9 9 3 0 0 1 0 0 1" % k)
        lines.append("cell add rl%d poly rlp%d" % (k, k))
    # RAW_A -> RAW_B -> RAW_C
    lines.append("ref new rlr0 cell rl1 0 0 0 1 0")
    lines.append("cell add rl0 ref rlr0")
    lines.append("ref new rlr1 cell rl2 0 0 0 1 0")
    lines.append("cell add rl1 ref rlr1")
    for k in range(3):
        lines.append("lib add RL rl%d" % k)
    lines.append("io write_gds RL %s 0" % rawpath)
    lines.append("io read_rawcells R %s" % rawpath)   # handles R.0 R.1 R.2 sorted by name
    for k, n in enumerate(rn):
        m.raws["R.%d" % k] = {"name": n, "deps": ["R.%d" % (k + 1)] if k < 2 else []}
        m.used_names.add(n)
    lines.append("lib new L %s 1e-6 1e-9" % hx("LIB"))
    return 2  # number of outputs produced so far (write_gds, read_rawcells)


def new_cell(m, lines, name, k):
    h = "c%d" % m.counter
    m.counter += 1
    t1, t2, t3 = TAGS[k % len(TAGS)], TAGS[(k + 1) % len(TAGS)], TAGS[(k + 2) % len(TAGS)]
    lines.append("cell new %s %s" % (h, hx(name)))
    lines.append("poly new %s.p 0 0 3 0 0 1 0 0 1" % h)
    lines.append("poly settag %s.p %d %d" % (h, t1[0], t1[1]))
    lines.append("cell add %s poly %s.p" % (h, h))
    lines.append("label new %s.l %s %d %d 0 0 0 0 1 0" % (h, hx("t"), t2[0], t2[1]))
    lines.append("cell add %s label %s.l" % (h, h))
    # a three-element flexible path and a two-element robust path, every element on its own tag (remaps that swap or
    # chain tags must treat each element independently)
    lines.append("fp new %s.f 0 0 3 0.01 0 1 1 0 %d %d 1 2 %d %d 1 -2 %d %d" % (h, t3[0], t3[1], t1[0], t1[1], t2[0], t2[1]))
    lines.append("fp seg %s.f 0 1 5 0 - -" % h)
    lines.append("cell add %s fp %s.f" % (h, h))
    lines.append("rp new %s.r 0 0 2 0.01 1000 0 1 1 1 %d %d 1 -1 %d %d" % (h, t2[0], t2[1], t3[0], t3[1]))
    lines.append("rp seg %s.r 0 5 0 - -" % h)
    lines.append("cell add %s rp %s.r" % (h, h))
    m.cells[h] = {"name": name, "ptags": [list(t1)], "ltags": [list(t2)], "ftags": [list(t3), list(t1), list(t2), list(t2), list(t3)], "refs": []}
    m.used_names.add(name)
    return h


def reachable(m, h, seen=None):
    seen = seen if seen is not None else set()
    for r in m.cells[h]["refs"]:
        if r["kind"] == "cell" and r["target"] not in seen:
            seen.add(r["target"])
            reachable(m, r["target"], seen)
    return seen


def queries(m, lines, expect, lib="L", cells=None, raws=None):
    cells = m.lib_cells if cells is None else cells
    raws = m.lib_raws if raws is None else raws
    lines.append("dump lib %s" % lib)
    snap = {}
    for h in cells:
        c = m.cells[h]
        refs = []
        for r in c["refs"]:
            if r["kind"] == "cell":
                refs.append(("cell", r["target"], m.cells[r["target"]]["name"]))
            elif r["kind"] == "raw":
                refs.append(("raw", r["target"], m.raws[r["target"]]["name"]))
            else:
                refs.append(("name", None, r["target"]))
        snap[h] = {"name": c["name"], "refs": sorted(refs, key=repr), "ptags": sorted(map(tuple, c["ptags"])), "ltags": sorted(map(tuple, c["ltags"])),
                   "ftags": sorted(map(tuple, c["ftags"]))}
    expect.append(("lib", list(cells), list(raws), snap))
    lines.append("hier top_level %s" % lib)
    referenced = {r["target"] for h in cells for r in m.cells[h]["refs"] if r["kind"] == "cell"}
    rawref = {r["target"] for h in cells for r in m.cells[h]["refs"] if r["kind"] == "raw"} | {d for h in raws for d in m.raws[h]["deps"]}
    expect.append(("top", sorted(h for h in cells if h not in referenced), sorted(h for h in raws if h not in rawref)))
    lines.append("hier tags lib %s" % lib)
    st_ = set()
    lt = set()
    for h in cells:
        c = m.cells[h]
        st_ |= {tuple(t) for t in c["ptags"] + c["ftags"]}
        lt |= {tuple(t) for t in c["ltags"]}
    expect.append(("tags", st_, lt))
    for h in cells:
        for rec in (0, 1):
            lines.append("hier deps %s %d" % (h, rec))
            if rec:
                d = reachable(m, h)
            else:
                d = {r["target"] for r in m.cells[h]["refs"] if r["kind"] == "cell"}
            # raw dependencies
            rd = set()
            srcs = [h] + (sorted(d) if rec else [])
            for s_ in srcs:
                for r in m.cells[s_]["refs"]:
                    if r["kind"] == "raw":
                        rd.add(r["target"])
            if rec:
                stack = list(rd)
                while stack:
                    x = stack.pop()
                    for y in m.raws[x]["deps"]:
                        if y not in rd:
                            rd.add(y)
                            stack.append(y)
            expect.append(("deps", h, rec, d, rd))
        lines.append("hier get_cell %s %s" % (lib, hx(m.cells[h]["name"])))
        expect.append(("get_cell", m.cells[h]["name"], h, None))
    for h in raws:
        lines.append("hier get_cell %s %s" % (lib, hx(m.raws[h]["name"])))
        expect.append(("get_cell", m.raws[h]["name"], None, h))


def check(ctx, case):
    ops = case["ops"]
    m = Model()
    lines = []
    expect = []
    rawpath = ctx.path("raws.gds")
    skip = build_initial(m, lines, rawpath)
    # a starting population: two cells with a pointer reference and a by-name reference between them
    a = new_cell(m, lines, m.fresh_name(4), 0)
    b = new_cell(m, lines, m.fresh_name(5), 1)
    for h in (a, b):
        lines.append("lib add L %s" % h)
        m.lib_cells.append(h)
    nref = [0]

    def add_ref(src, kind, target):
        rid = "r%d" % nref[0]
        nref[0] += 1
        if kind == "cell":
            lines.append("ref new %s cell %s 0 0 0 1 0" % (rid, target))
        elif kind == "raw":
            lines.append("ref new %s raw %s 0 0 0 1 0" % (rid, target))
        else:
            lines.append("ref new %s name %s 0 0 0 1 0" % (rid, hx(target)))
        lines.append("cell add %s ref %s" % (src, rid))
        m.cells[src]["refs"].append({"kind": kind, "target": target})
    add_ref(a, "cell", b)
    add_ref(a, "name", m.cells[b]["name"])
    rewrote = False
    nt = False
    labels = set()
    for op in ops:
        name = op[0]
        if not m.lib_cells:
            h0 = new_cell(m, lines, m.fresh_name(3), 3)
            lines.append("lib add L %s" % h0)
            m.lib_cells.append(h0)
        lc = list(m.lib_cells)
        if name == "add_cell":
            h = new_cell(m, lines, m.fresh_name(op[1]), op[1])
            lines.append("lib add L %s" % h)
            m.lib_cells.append(h)
        elif name == "remove_cell":
            if len(lc) <= 1:
                continue
            h = lc[op[1] % len(lc)]
            # only cells nobody points at may be removed without leaving a dangling pointer (a user error otherwise)
            if any(r["kind"] == "cell" and r["target"] == h for c in m.lib_cells for r in m.cells[c]["refs"]):
                continue
            lines.append("lib remove L %s" % h)
            m.lib_cells.remove(h)
        elif name == "add_ref":
            src = lc[op[1] % len(lc)]
            kind = op[2]
            if kind == "cell":
                # keep the graph acyclic: target must not reach src
                cands = [h for h in lc if h != src and src not in reachable(m, h) and h != src]
                if not cands:
                    continue
                add_ref(src, "cell", cands[op[3] % len(cands)])
            elif kind == "raw":
                rk = [h for h in sorted(m.raws) if h not in m.retired]
                if not rk:
                    continue
                add_ref(src, "raw", rk[op[3] % len(rk)])
            elif kind == "name":
                cands = [h for h in lc if h != src and src not in reachable(m, h)]
                if not cands:
                    continue
                add_ref(src, "name", m.cells[cands[op[3] % len(cands)]]["name"])
            else:
                add_ref(src, "name", ["ABSENT", "ADDER_EXTERNAL", "MUX_2TO1", "A_"][op[3] % 4])
            labels.add("ref_" + kind)
        elif name == "rename":
            h = lc[op[2] % len(lc)]
            old = m.cells[h]["name"]
            new = m.fresh_name(op[3])
            if new in m.live_names():
                continue
            if op[1] == "byname":
                lines.append("hier rename L byname %s %s" % (hx(old), hx(new)))
            else:
                lines.append("hier rename L byptr %s %s" % (h, hx(new)))
            m.cells[h]["name"] = new
            m.used_names.add(new)
            for c in m.lib_cells:
                for r in m.cells[c]["refs"]:
                    if r["kind"] == "name" and r["target"] == old:
                        r["target"] = new
                        rewrote = True
            labels.add("rename_" + op[1] + ("_shorter" if len(new) < len(old) else "_longer" if len(new) > len(old) else "_same_length"))
        elif name == "replace":
            how, in_lib, same_name = op[1], op[4], op[5]
            # old object
            if how[0] == "c":
                pool = lc if in_lib else [h for h in m.cells if h not in m.lib_cells and h not in m.retired]
                if not pool:
                    pool = lc
                old = pool[op[2] % len(pool)]
                oldname = m.cells[old]["name"]
            else:
                pool = list(m.lib_raws) if in_lib else [h for h in sorted(m.raws) if h not in m.lib_raws and h not in m.retired]
                if not pool:
                    # put a raw cell into the library first
                    free = [h for h in sorted(m.raws) if h not in m.lib_raws and h not in m.retired]
                    if not free:
                        continue
                    lines.append("lib addraw L %s" % free[0])
                    m.lib_raws.append(free[0])
                    pool = [free[0]]
                old = pool[op[2] % len(pool)]
                oldname = m.raws[old]["name"]
            # new object
            if how[1] == "c":
                if same_name:
                    # a same-named replacement: the old cell is renamed out of the way in the model only if it stays alive;
                    # it leaves the library, so a duplicate live name is acceptable only when old is in the library
                    if (how[0] == "c" and old not in m.lib_cells) or (how[0] == "r" and old not in m.lib_raws):
                        continue
                    new = new_cell(m, lines, oldname, op[3])
                else:
                    new = new_cell(m, lines, m.fresh_name(op[3]), op[3])
                newname = m.cells[new]["name"]
            else:
                free = [h for h in sorted(m.raws) if h not in m.lib_raws and h != old and h not in m.retired]
                if not free:
                    continue
                new = free[op[3] % len(free)]
                newname = m.raws[new]["name"]
                # a raw replacement must not be referenced as a dependency cycle; fine for RAW_A..C
            lines.append("hier replace L %s %s %s" % (how, old, new))
            if newname == oldname:
                m.retired.add(old)
            # library membership
            if how == "cc":
                if old in m.lib_cells:
                    m.lib_cells[m.lib_cells.index(old)] = new
            elif how == "rc":
                if old in m.lib_raws:
                    # (array order is not part of the property; it is mirrored only so that the handles of later deep
                    # copies can be named: the library removes by swapping the last entry into the hole)
                    i_ = m.lib_raws.index(old)
                    m.lib_raws[i_] = m.lib_raws[-1]
                    m.lib_raws.pop()
                    m.lib_cells.append(new)
            elif how == "cr":
                if old in m.lib_cells:
                    i_ = m.lib_cells.index(old)
                    m.lib_cells[i_] = m.lib_cells[-1]
                    m.lib_cells.pop()
                    m.lib_raws.append(new)
            else:
                if old in m.lib_raws:
                    m.lib_raws[m.lib_raws.index(old)] = new
            # references in library cells
            for c in m.lib_cells:
                for r in m.cells[c]["refs"]:
                    if r["kind"] in ("cell", "raw") and r["target"] == old:
                        r["kind"] = "cell" if how[1] == "c" else "raw"
                        r["target"] = new
                        rewrote = True
                    elif r["kind"] == "name" and r["target"] == oldname and newname != oldname:
                        r["target"] = newname
                        rewrote = True
            labels.add("replace_" + how + ("_inlib" if in_lib else "_outside") + ("_samename" if same_name else ""))
        elif name == "remap":
            pairs = {}
            for a_, b_ in op[3]:
                if a_ != b_:
                    pairs[tuple(REMAP_TAGS[a_])] = tuple(REMAP_TAGS[b_])
            if not pairs:
                continue
            spec = "%d %s" % (len(pairs), " ".join("%d %d %d %d" % (k[0], k[1], v[0], v[1]) for k, v in pairs.items()))
            if op[1] == "lib":
                lines.append("hier remap lib L %s" % spec)
                targets = list(m.lib_cells)
            else:
                h = lc[op[2] % len(lc)]
                lines.append("hier remap cell %s %s" % (h, spec))
                targets = [h]
            for h in targets:
                c = m.cells[h]
                for key in ("ptags", "ltags", "ftags"):
                    c[key] = [list(pairs.get(tuple(t), tuple(t))) for t in c[key]]
            if any(v in pairs for v in pairs.values()):
                labels.add("remap_chained")
            if len(pairs) >= 5:
                labels.add("remap_map_grew")
        elif name == "copy_lib":
            deep = op[1]
            cid = "K%d" % len(expect)
            lines.append("lib copy %s L %d" % (cid, 1 if deep else 0))
            if deep:
                # deep copy: new cells (handles <cid>.<i>) with equal content, references keep their targets; then edit
                # the copy and check that the source is untouched
                saved_cells = {h: {"name": m.cells[h]["name"], "ptags": [list(t) for t in m.cells[h]["ptags"]], "ltags": [list(t) for t in m.cells[h]["ltags"]],
                                   "ftags": [list(t) for t in m.cells[h]["ftags"]], "refs": [dict(r) for r in m.cells[h]["refs"]]} for h in m.lib_cells}
                copy_handles = []
                for i, h in enumerate(m.lib_cells):
                    ch = "%s.%d" % (cid, i)
                    m.cells[ch] = saved_cells[h]
                    copy_handles.append(ch)
                queries(m, lines, expect, lib=cid, cells=copy_handles, raws=list(m.lib_raws))
                lines.append("hier remap lib %s 2 %d %d %d %d %d %d %d %d" % (cid, TAGS[0][0], TAGS[0][1], 77, 7, TAGS[1][0], TAGS[1][1], 78, 8))
                lines.append("hier rename %s byptr %s %s" % (cid, copy_handles[op[2] % len(copy_handles)], hx("COPY_RENAMED_%d" % len(expect))))
                for ch in copy_handles:
                    del m.cells[ch]
                labels.add("copy_lib_deep")
            else:
                # shallow copy shares the cell objects
                queries(m, lines, expect, lib=cid, cells=list(m.lib_cells), raws=list(m.lib_raws))
                labels.add("copy_lib_shallow")
        elif name == "copy_cell":
            src = lc[op[1] % len(lc)]
            deep = op[2]
            nn = m.fresh_name(op[3])
            if nn in m.live_names():
                continue
            h = "c%d" % m.counter
            m.counter += 1
            lines.append("cell copy %s %s %s %d" % (h, src, hx(nn), 1 if deep else 0))
            s = m.cells[src]
            if deep:
                m.cells[h] = {"name": nn, "ptags": [list(t) for t in s["ptags"]], "ltags": [list(t) for t in s["ltags"]], "ftags": [list(t) for t in s["ftags"]],
                              "refs": [dict(r) for r in s["refs"]]}
                m.used_names.add(nn)
                lines.append("lib add L %s" % h)
                m.lib_cells.append(h)
                # edit the copy: the source must stay as it was
                lines.append("hier remap cell %s 1 %d %d 99 9" % (h, s["ptags"][0][0], s["ptags"][0][1]))
                m.cells[h]["ptags"] = [[99, 9] if t == s["ptags"][0] else t for t in m.cells[h]["ptags"]]
                m.cells[h]["ltags"] = [[99, 9] if t == s["ptags"][0] else t for t in m.cells[h]["ltags"]]
                m.cells[h]["ftags"] = [[99, 9] if t == s["ptags"][0] else t for t in m.cells[h]["ftags"]]
                labels.add("copy_cell_deep")
            else:
                # a shallow copy shares the element objects: it is only inspected, not added (its elements would be remapped twice)
                lines.append("dump cell %s" % h)
                expect.append(("cellcopy", nn, {"ptags": list(s["ptags"]), "refs": list(s["refs"])}))
                labels.add("copy_cell_shallow")
        if rewrote:
            nt = True
        queries(m, lines, expect)
    outs = ctx.run(lines, case)[skip:]
    if len(outs) != len(expect):
        raise Violation("driver answered %d lines, expected %d" % (len(outs), len(expect)), case, script=lines)

    def fail(msg, e=None, o=None):
        raise Violation(msg, case, e, o, lines)
    for o, e in zip(outs, expect):
        if e[0] == "lib":
            d = o["lib"]
            got_cells = [c["ptr"] for c in d["cells"]]
            if sorted(got_cells) != sorted(e[1]):
                fail("cell_array holds %s, model %s" % (sorted(got_cells), sorted(e[1])), e[1], got_cells)
            got_raws = [r["ptr"] for r in d["rawcells"]]
            if sorted(got_raws) != sorted(e[2]):
                fail("rawcell_array holds %s, model %s" % (sorted(got_raws), sorted(e[2])), e[2], got_raws)
            for c in d["cells"]:
                want = e[3][c["ptr"]]
                nm = bytes.fromhex(c["name"]).decode("latin-1")
                if nm != want["name"]:
                    fail("cell %s is called %r, model %r" % (c["ptr"], nm, want["name"]), want["name"], nm)
                refs = sorted([(r["type"], r.get("ptr"), bytes.fromhex(r["target"] or "").decode("latin-1")) for r in c["refs"]], key=repr)
                if refs != want["refs"]:
                    fail("references of cell %s (%r): %s; model %s" % (c["ptr"], nm, refs, want["refs"]), want["refs"], refs)
                pt = sorted(tuple(p["tag"]) for p in c["polygons"])
                lt = sorted(tuple(l["tag"]) for l in c["labels"])
                ft = sorted([tuple(el["tag"]) for f in c["flexpaths"] for el in f["elements"]] + [tuple(el["tag"]) for f in c["robustpaths"] for el in f["elements"]])
                if pt != want["ptags"] or lt != want["ltags"] or ft != want["ftags"]:
                    fail("element tags of cell %s (%r): polygons %s labels %s paths %s; model %s %s %s" % (c["ptr"], nm, pt, lt, ft, want["ptags"], want["ltags"], want["ftags"]))
            for r in d["rawcells"]:
                pass
        elif e[0] == "top":
            if sorted(o["cells"]) != e[1] or sorted(o["rawcells"]) != e[2]:
                fail("top_level returned cells %s raw cells %s; model %s / %s" % (sorted(o["cells"]), sorted(o["rawcells"]), e[1], e[2]), e[1:], o)
        elif e[0] == "tags":
            if {tuple(t) for t in o["shape_tags"]} != e[1] or {tuple(t) for t in o["label_tags"]} != e[2]:
                fail("library tags %s / %s, model %s / %s" % (sorted(map(tuple, o["shape_tags"])), sorted(map(tuple, o["label_tags"])), sorted(e[1]), sorted(e[2])))
        elif e[0] == "deps":
            got = {x["ptr"] for x in o["deps"]}
            gotr = {x["ptr"] for x in o["rawdeps"]}
            if got != e[3] or gotr != e[4]:
                fail("get_dependencies(%s, recursive=%d) = %s raw %s; model %s raw %s" % (e[1], e[2], sorted(got), sorted(gotr), sorted(e[3]), sorted(e[4])), e[3:], o)
        elif e[0] == "cellcopy":
            c = o["cell"]
            nm = bytes.fromhex(c["name"]).decode("latin-1")
            if nm != e[1] or len(c["polygons"]) != len(e[2]["ptags"]) or len(c["refs"]) != len(e[2]["refs"]):
                fail("shallow cell copy: name %r with %d polygons / %d references, expected %r %d / %d" % (nm, len(c["polygons"]), len(c["refs"]), e[1],
                                                                                                       len(e[2]["ptags"]), len(e[2]["refs"])))
        elif e[0] == "get_cell":
            if o["cell"] != e[2] or o["raw"] != e[3]:
                fail("get_cell/get_rawcell(%r) = %s/%s, model %s/%s" % (e[1], o["cell"], o["raw"], e[2], e[3]), e[2:], o)
    ctx.stats.note(case, nt, sorted(labels))


def m_snapshot_lookup(e, ptr):
    return None


def run_worker(ctx):
    q = ctx.tier == "quick"
    strat = op_strategy(25 if q else 60).map(lambda o: {"ops": [list(x) for x in o]})
    v = ctx.hypothesis(check, strat, ctx.share(4000 if q else 40000), "edits")
    return [v] if v else []


def replay(ctx, test, case, ignore_known=False):
    return check(ctx, case)
