"""Expected result of saving an abstract library (layoutgen) as OASIS and loading it back (C02).  Both sides are expanded to
placements (every repetition offset) so that the comparison does not depend on how a repetition or a shape is represented.
Lengths in grid units."""
import math

import layoutgen as lg
import repgen
from gdsmodel import Mismatch, angle_close, rel_close, take

TOL_INT = 1e-4


def offsets(rep):
    return repgen.offsets(rep) if rep is not None else [(0.0, 0.0)]


def rep_on_grid(rep):
    if rep is None:
        return True
    vals = []
    for k in ("spacing", "v1", "v2"):
        if k in rep:
            vals += rep[k]
    for o in rep.get("offsets", []):
        vals += o
    vals += rep.get("coords", [])
    return all(abs(v - round(v)) < 1e-9 for v in vals)


def rep_tol(rep):
    """placement tolerance beyond the rounding of the base point: every rounded summand may add half a grid unit"""
    if rep is None or rep_on_grid(rep):
        return 0.0
    t = rep["type"]
    if t in ("rect", "regular"):
        return 0.5 * ((rep["cols"] - 1) + (rep["rows"] - 1))
    if t == "explicit":
        return 0.5 * len(rep["offsets"])
    return 0.5 * len(rep["coords"])


def grid_rep(rep, g):
    if rep is None:
        return None
    r = dict(rep)
    for k in ("spacing", "v1", "v2"):
        if k in r:
            r[k] = [v / g for v in r[k]]
    if "offsets" in r:
        r["offsets"] = [[v / g for v in o] for o in r["offsets"]]
    if "coords" in r:
        r["coords"] = [v / g for v in r["coords"]]
    return r


def canon_props(props):
    """generator properties -> ordered list of (name, [(type, value)])"""
    out = []
    for p in props:
        if len(p) == 2 and isinstance(p[0], int):
            out.append(("S_GDS_PROPERTY", [("u", p[0]), ("s", (p[1].encode("latin-1") + b"\0").hex())]))
        else:
            out.append((p[0], [(t, v) for t, v in p[1]]))
    return out


def dumped_props(props):
    out = []
    for p in props:
        out.append((bytes.fromhex(p["name"]).decode("latin-1"), [(v[0], v[1]) for v in p["values"]]))
    return out


def props_same(exp, got):
    if len(exp) != len(got):
        return False
    for (en, ev), (gn, gv) in zip(exp, got):
        if en != gn or len(ev) != len(gv):
            return False
        for (et, e), (gt, g) in zip(ev, gv):
            if et != gt:
                return False
            if et == "r":
                if not (e == g or (isinstance(g, float) and math.isnan(g) and math.isnan(e))):
                    return False
            elif et == "s":
                if (e or "").lower() != (g or "").lower():
                    return False
            elif int(e) != int(g):
                return False
    return True


def cyc_match(exp, got, tol):
    """same closed vertex cycle up to starting vertex and orientation; exp unrounded, got integer grid points"""
    n = len(exp)
    if n != len(got):
        return False
    for seq in (got, got[::-1]):
        for s in range(n):
            ok = True
            for i in range(n):
                a, b = exp[i], seq[(s + i) % n]
                if abs(a[0] - b[0]) > tol or abs(a[1] - b[1]) > tol:
                    ok = False
                    break
            if ok:
                return True
    return False


def dedupe_closed(pts):
    """drop consecutive duplicates (incl. last == first) after rounding"""
    out = []
    for p in pts:
        q = (lg.rnd(p[0]), lg.rnd(p[1]))
        if not out or q != (lg.rnd(out[-1][0]), lg.rnd(out[-1][1])):
            out.append(p)
    while len(out) > 1 and (lg.rnd(out[0][0]), lg.rnd(out[0][1])) == (lg.rnd(out[-1][0]), lg.rnd(out[-1][1])):
        out.pop()
    return out


def seg_dist(p, a, b):
    dx, dy = b[0] - a[0], b[1] - a[1]
    l2 = dx * dx + dy * dy
    if l2 == 0:
        return math.hypot(p[0] - a[0], p[1] - a[1])
    t = max(0.0, min(1.0, ((p[0] - a[0]) * dx + (p[1] - a[1]) * dy) / l2))
    return math.hypot(p[0] - a[0] - t * dx, p[1] - a[1] - t * dy)


def hausdorff(A, B):
    def one(P, Q):
        n = len(Q)
        return max(min(seg_dist(p, Q[i], Q[(i + 1) % n]) for i in range(n)) for p in P)
    return max(one(A, B), one(B, A))


def expected(lib, queries):
    g = lib["precision"] / lib["unit"]
    out = []
    for ci, c in enumerate(lib["cells"]):
        if c.get("outside"):
            continue
        polys, paths, labels, refs = [], [], [], []
        for p in c["polys"]:
            base = dedupe_closed(p["pts"])      # vertices are rounded before the (rounded) repetition offsets are added
            for off in offsets(p["rep"]):
                polys.append({"tag": p["tag"], "pts": [(x + off[0], y + off[1]) for x, y in base], "props": canon_props(p["props"]), "tol": 0.5 + rep_tol(p["rep"]),
                              "circle": p.get("circle")})
        for pi, p in enumerate(c["paths"]):
            q = queries[(ci, pi)]
            if p["simple"]:
                for e, cen in zip(p["els"], q["centers"]):
                    spine = [(x / g, y / g) for x, y in cen["pts"]]
                    ps = abs(p.get("prescale") or 1.0)      # a scaled path: widths follow if scale_width, extensions always
                    for off in offsets(p["rep"]):
                        paths.append({"tag": e["tag"], "spine": [(x + off[0], y + off[1]) for x, y in spine], "base": spine, "off": off,
                                      "w": e["w"] * (ps if p["scale_width"] else 1.0), "end": e["end"],
                                      "ext": [e["ext"][0] * ps, e["ext"][1] * ps], "props": canon_props(p["props"]), "tol": 0.5 + rep_tol(p["rep"])})
            else:
                for op in q["result"]:
                    pts = dedupe_closed([(x / g, y / g) for x, y in op["pts"]])
                    if len(pts) < 3:
                        continue
                    for off in offsets(p["rep"]):
                        polys.append({"tag": op["tag"], "pts": [(x + off[0], y + off[1]) for x, y in pts], "props": canon_props(p["props"]), "tol": 0.5 + rep_tol(p["rep"]),
                                      "circle": None})
        for l in c["labels"]:
            for off in offsets(l["rep"]):
                labels.append({"text": l["text"], "tag": l["tag"], "pos": (l["origin"][0] + off[0], l["origin"][1] + off[1]), "props": canon_props(l["props"]),
                               "tol": 0.5 + rep_tol(l["rep"])})
        for r in c["refs"]:
            resolved = r["kind"] in ("cell", "name") and not lib["cells"][r["target"]].get("outside")
            for off in offsets(r["rep"]):
                refs.append({"target": lg.ref_target_name(lib, r), "pos": (r["origin"][0] + off[0], r["origin"][1] + off[1]), "rot": r["rot"], "mag": r["mag"], "xr": r["xr"],
                             "props": canon_props(r["props"]), "tol": 0.5 + rep_tol(r["rep"]), "resolved": resolved})
        out.append({"name": c["name"], "polys": polys, "paths": paths, "labels": labels, "refs": refs})
    return out


def on_grid(v, what):
    if abs(v - round(v)) > TOL_INT * max(1.0, abs(v) * 1e-6):
        raise Mismatch("%s = %r grid units is not on the grid" % (what, v))


def expand_got(cell, g, strict=True):
    polys, paths, labels, refs = [], [], [], []
    for p in cell["polygons"]:
        pts = [(x / g, y / g) for x, y in p["pts"]]
        for off in offsets(grid_rep(p["rep"], g)):
            q = [(x + off[0], y + off[1]) for x, y in pts]
            polys.append({"tag": p["tag"], "pts": q, "props": dumped_props(p["props"])})
    for f in cell["flexpaths"]:
        if len(f["elements"]) != 1:
            raise Mismatch("a reloaded path has %d elements" % len(f["elements"]))
        if not f["simple"]:
            raise Mismatch("a reloaded PATH is not flagged simple_path")
        e = f["elements"][0]
        spine = [(x / g, y / g) for x, y in f["spine"]]
        for off in offsets(grid_rep(f["rep"], g)):
            paths.append({"tag": e["tag"], "spine": [(x + off[0], y + off[1]) for x, y in spine], "hw": [h[0] / g for h in e["hwo"]], "off": [h[1] / g for h in e["hwo"]],
                          "end": e["end"], "ext": [e["ext"][0] / g, e["ext"][1] / g], "props": dumped_props(f["props"])})
    if cell["robustpaths"]:
        raise Mismatch("robust paths appear after an OASIS reload")
    for l in cell["labels"]:
        o = (l["origin"][0] / g, l["origin"][1] / g)
        for off in offsets(grid_rep(l["rep"], g)):
            labels.append({"text": bytes.fromhex(l["text"] or "").decode("latin-1"), "tag": l["tag"], "pos": (o[0] + off[0], o[1] + off[1]), "props": dumped_props(l["props"])})
    for r in cell["refs"]:
        o = (r["origin"][0] / g, r["origin"][1] / g)
        for off in offsets(grid_rep(r["rep"], g)):
            refs.append({"target": bytes.fromhex(r["target"] or "").decode("latin-1"), "pos": (o[0] + off[0], o[1] + off[1]), "rot": r["rotation"], "mag": r["mag"], "xr": r["xrefl"],
                         "props": dumped_props(r["props"]), "type": r["type"]})
    if strict:
        # (polygon vertices are checked when matched: a detected circle legitimately re-loads off the grid)
        for x in paths:
            for px, py in x["spine"]:
                on_grid(px, "path vertex")
                on_grid(py, "path vertex")
        for x in labels + refs:
            on_grid(x["pos"][0], "position")
            on_grid(x["pos"][1], "position")
    return polys, paths, labels, refs



def match_all(exp_list, pool, pred, describe):
    """multiset matching of expected against re-loaded placements as a maximum bipartite matching on "agrees within the
    element's tolerance" - greedy matching lets near-duplicate placements of an off-grid repetition steal each other's partner"""
    rest = list(exp_list)
    if not rest:
        return
    # maximum bipartite matching (augmenting paths) on "agrees within the element's tolerance"
    adj = []
    for e in rest:
        adj.append([i for i, x in enumerate(pool) if pred(e, x, e["tol"] + 1e-4) is not None])
    owner = {}

    def augment(k, seen):
        for i in adj[k]:
            if i in seen:
                continue
            seen.add(i)
            if i not in owner or augment(owner[i], seen):
                owner[i] = k
                return True
        return False
    for k in range(len(rest)):
        if not augment(k, set()):
            raise Mismatch(describe(rest[k]))
    for i in sorted(owner, reverse=True):
        pool.pop(i)


def compare_cell(exp, got, g, circle_tol_grid, read_tol_grid, stats=None):
    polys, paths, labels, refs = expand_got(got, g)
    compare_expanded(exp, polys, paths, labels, refs, circle_tol_grid, read_tol_grid)


def compare_expanded(exp, polys, paths, labels, refs, circle_tol_grid, read_tol_grid):
    """exp: one entry of expected(); the other lists: placements of the re-loaded / decoded cell in grid units"""
    # ---- polygons (representation independent: rectangles, trapezoids come back as the same vertex cycle)
    def poly_pred(e, x, tol):
        if x["tag"] != e["tag"] or not props_same(e["props"], x["props"]):
            return None
        # cheap rejection first: bounding boxes must agree within the loosest tolerance that could apply
        if "bb" not in e:
            e["bb"] = (min(p[0] for p in e["pts"]), min(p[1] for p in e["pts"]), max(p[0] for p in e["pts"]), max(p[1] for p in e["pts"]))
        if "bb" not in x:
            x["bb"] = (min(p[0] for p in x["pts"]), min(p[1] for p in x["pts"]), max(p[0] for p in x["pts"]), max(p[1] for p in x["pts"]))
        slack = tol + (circle_tol_grid + read_tol_grid + 1.0 if circle_tol_grid > 0 else 0.0)
        if any(abs(a - b) > slack for a, b in zip(e["bb"], x["bb"])):
            return None
        gp = dedupe_closed(x["pts"])
        if e.get("circle") and x.get("is_circle"):
            h = hausdorff(e["pts"], x["pts"])      # both sides may be renderings of the same CIRCLE record
            if h <= 1e-6 * max(1.0, abs(e["pts"][0][0])) + 1e-6:
                return h
        if cyc_match(e["pts"], gp, tol):
            for px, py in x["pts"]:
                on_grid(px, "polygon vertex")
                on_grid(py, "polygon vertex")
            return abs(e["pts"][0][0] - min(gp, key=lambda q: abs(q[0] - e["pts"][0][0]) + abs(q[1] - e["pts"][0][1]))[0])
        if circle_tol_grid > 0 and len(e["pts"]) >= 5:
            # any polygon within the circle tolerance of a circle may be stored as a CIRCLE; it comes back as a fresh
            # approximation: Hausdorff distance within the two tolerances
            h = hausdorff(e["pts"], x["pts"])
            return h if h <= circle_tol_grid + read_tol_grid + 1.0 + e["tol"] else None
        return None
    match_all(exp["polys"], polys, poly_pred, lambda e: "polygon tag %s with %d vertices starting at %s not found after reload (moved by more than %.1f grid unit, "
              "lost its properties, or changed shape)" % (e["tag"], len(e["pts"]), e["pts"][0] if e["pts"] else None, e["tol"]))
    if polys:
        raise Mismatch("%d unexpected polygon placement(s) after reload, e.g. tag %s %s" % (len(polys), polys[0]["tag"], polys[0]["pts"][:4]))
    # ---- simple paths
    def path_pred(e, x, tol):
        endcode = lg.END_CODE[e["end"]]
        if x["tag"] != e["tag"] or not props_same(e["props"], x["props"]):
            return None
        red = []
        for p in e["base"]:
            if not red or (lg.rnd(p[0]), lg.rnd(p[1])) != (lg.rnd(red[-1][0]), lg.rnd(red[-1][1])):
                red.append(p)
        off = e["off"]
        score = None
        for cand in (e["base"], red):
            if len(cand) == len(x["spine"]) and all(abs(a[0] + off[0] - b[0]) <= tol and abs(a[1] + off[1] - b[1]) <= tol for a, b in zip(cand, x["spine"])):
                score = abs(cand[0][0] + off[0] - x["spine"][0][0]) + abs(cand[0][1] + off[1] - x["spine"][0][1])
        if score is None:
            return None
        if any(abs(h - e["w"] / 2) > 0.5 + 1e-6 for h in x["hw"]) or any(abs(o) > 1e-9 for o in x["off"]):
            return None
        hw = x["hw"][0]
        # end styles are compared by the extensions they denote (a zero-width half-width end is a flush end, ...)
        got_ext = {0: (0.0, 0.0), 2: (hw, hw), 3: (x["ext"][0], x["ext"][1])}.get(x["end"])
        if got_ext is None:
            return None
        if endcode == 0:
            want = (0.0, 0.0)
        elif endcode == 2:
            want = (hw, hw)
        else:
            want = (float(lg.rnd(e["ext"][0])), float(lg.rnd(e["ext"][1])))
        return score if abs(got_ext[0] - want[0]) < 1e-6 and abs(got_ext[1] - want[1]) < 1e-6 else None
    match_all(exp["paths"], paths, path_pred, lambda e: "simple path tag %s width %s end %s ext %s from %s to %s not found after reload (centre line, half-width, end "
              "style, extensions and properties must survive)" % (e["tag"], e["w"], e["end"], e["ext"], e["spine"][0], e["spine"][-1]))
    if paths:
        raise Mismatch("%d unexpected path placement(s) after reload, e.g. tag %s spine %s end %s" % (len(paths), paths[0]["tag"], paths[0]["spine"][:3], paths[0]["end"]))
    # ---- labels: text and position
    def label_pred(e, x, tol):
        if x["text"] == e["text"] and x["tag"] == e["tag"] and abs(x["pos"][0] - e["pos"][0]) <= tol and abs(x["pos"][1] - e["pos"][1]) <= tol and props_same(e["props"], x["props"]):
            return abs(x["pos"][0] - e["pos"][0]) + abs(x["pos"][1] - e["pos"][1])
        return None
    match_all(exp["labels"], labels, label_pred, lambda e: "label %r tag %s at %s not found after reload" % (e["text"], e["tag"], e["pos"]))
    if labels:
        raise Mismatch("%d unexpected label placement(s) after reload, e.g. %r at %s" % (len(labels), labels[0]["text"], labels[0]["pos"]))
    # ---- references
    def ref_pred(e, x, tol):
        if (x["target"] == e["target"] and angle_close(x["rot"], e["rot"]) and rel_close(x["mag"], e["mag"]) and x["xr"] == e["xr"] and
                abs(x["pos"][0] - e["pos"][0]) <= tol and abs(x["pos"][1] - e["pos"][1]) <= tol and props_same(e["props"], x["props"]) and (x["type"] == "cell") == e["resolved"]):
            return abs(x["pos"][0] - e["pos"][0]) + abs(x["pos"][1] - e["pos"][1])
        return None
    match_all(exp["refs"], refs, ref_pred, lambda e: "reference to %r placed at %s (rot %r mag %r xrefl %s, %s) not found after reload; reloaded references: %s" %
              (e["target"], e["pos"], e["rot"], e["mag"], e["xr"], "resolved" if e["resolved"] else "by name", [(x["target"], x["pos"], x["type"]) for x in refs][:6]))
    if refs:
        raise Mismatch("%d unexpected reference placement(s) after reload, e.g. %s" % (len(refs), (refs[0]["target"], refs[0]["pos"])))


def compare_library(lib, exp, dump, circle_tol_user, read_tol_user, stats=None):
    g_in = lib["precision"] / lib["unit"]
    g = dump["precision"] / dump["unit"]
    if not rel_close(dump["precision"], lib["precision"], 1e-12):
        raise Mismatch("precision reloaded as %r, saved %r" % (dump["precision"], lib["precision"]))
    if not rel_close(dump["unit"], 1e-6, 1e-15):
        raise Mismatch("unit reloaded as %r (OASIS files are in micrometres)" % dump["unit"])
    names = [bytes.fromhex(c["name"]).decode("latin-1") for c in dump["cells"]]
    want = [e["name"] for e in exp]
    if sorted(names) != sorted(want):
        raise Mismatch("cells after reload %s, saved %s" % (sorted(names), sorted(want)))
    by = {bytes.fromhex(c["name"]).decode("latin-1"): c for c in dump["cells"]}
    for e in exp:
        try:
            compare_cell(e, by[e["name"]], g, circle_tol_user / g_in, read_tol_user / g_in, stats)
        except Mismatch as m:
            raise Mismatch("cell %r: %s" % (e["name"], m))
