"""C14 - point-in-polygon queries and polygon measures are exact."""
import math
from fractions import Fraction

from hypothesis import strategies as st

from common import Violation, fl
import repgen

LEVEL = "exploration"
RULE = ("(a) exhaustive in-driver enumeration: every vertex list of length 0..L over a 4x4 integer grid x every query "
        "point of the half-step lattice [-1,4]^2 (121 points), Polygon::contain vs exact integer winding/on-segment "
        "oracle; distinct_nontrivial counts the (list, point) pairs whose point lies on the boundary or inside "
        "(measured by the oracle) plus (b) random Hypothesis cases: 1-5 polygons of 0-40 vertices with coordinates "
        "k/8, |k| <= 2^25 (all of gdstk's cross products are then exact in double), query points drawn from the "
        "structure (vertices, edge midpoints, points sharing an ordinate with a vertex, lattice points, far points); "
        "a random case is non-trivial when some query point is on a boundary or shares an ordinate with a vertex or "
        "a polygon self-intersects/has repeated vertices; distinct by case hash")
ASSUMPTIONS = ["coordinates are dyadic rationals; a fifth of the polygons sit at a far anchor (2^31 .. 2^40 eighths) where only products "
               "of coordinate DIFFERENCES are exact - the measures are still compared with 1e-12 relative tolerance",
               "the oracle is my own exact winding number (Python ints / C++ int64)"]


def exact_contain(pts, q):
    """pts, q in integer units. returns 'b' boundary, 'i' inside (winding != 0), 'o' outside."""
    n = len(pts)
    if n == 0:
        return "o"
    wn = 0
    px, py = q
    for i in range(n):
        ax, ay = pts[i]
        bx, by = pts[(i + 1) % n]
        o = (bx - ax) * (py - ay) - (by - ay) * (px - ax)
        if o == 0 and min(ax, bx) <= px <= max(ax, bx) and min(ay, by) <= py <= max(ay, by):
            return "b"
        if ay <= py:
            if by > py and o > 0:
                wn += 1
        else:
            if by <= py and o < 0:
                wn -= 1
    return "i" if wn != 0 else "o"


def shoelace2(pts):
    s = 0
    n = len(pts)
    for i in range(n):
        x0, y0 = pts[i]
        x1, y1 = pts[(i + 1) % n]
        s += x0 * y1 - x1 * y0
    return s  # twice the signed area in integer units^2


coord_small = st.integers(-16, 16).map(lambda k: k * 2)
coord_mid = st.integers(-2 ** 12, 2 ** 12).map(lambda k: k * 2)
coord_big = st.integers(-2 ** 24, 2 ** 24).map(lambda k: k * 2)


@st.composite
def polygon(draw):
    c = draw(st.sampled_from([coord_small, coord_small, coord_mid, coord_big]))
    n = draw(st.sampled_from([0, 1, 2, 3, 3, 4, 4, 5, 6, 8, 12, 20, 40]))
    mode = draw(st.sampled_from(["free", "free", "rectilinear", "repeat"]))
    pts = []
    if mode == "rectilinear" and n >= 4:
        x = draw(c)
        y = draw(c)
        for i in range(n):
            if i % 2 == 0:
                x = draw(c)
            else:
                y = draw(c)
            pts.append([x, y])
    else:
        for i in range(n):
            if mode == "repeat" and pts and draw(st.booleans()):
                pts.append(list(draw(st.sampled_from(pts))))
            else:
                pts.append([draw(c), draw(c)])
    # a polygon far from the origin (coordinates stay exactly representable): the measures must come from coordinate
    # differences - products of absolute coordinates exceed 2^53 here and would cancel catastrophically
    if draw(st.integers(0, 4)) == 0:
        anchors = [2 ** 31 + 8, -(2 ** 31 + 8), 3 * 2 ** 30 + 8, 8 * 10 ** 9 + 56, -(8 * 10 ** 9 + 24), 2 ** 40 + 8]
        ax, ay = draw(st.sampled_from(anchors)), draw(st.sampled_from(anchors))
        pts = [[x + ax, y + ay] for x, y in pts]
    rep = draw(st.one_of(st.none(), st.none(), repgen.repetition(allow_zero=False)))
    return {"pts": pts, "rep": rep}


@st.composite
def case_strategy(draw):
    polys = draw(st.lists(polygon(), min_size=0, max_size=5))
    npts = draw(st.integers(0, 12))
    allv = [p for poly in polys for p in poly["pts"]]
    points = []
    for _ in range(npts):
        mode = draw(st.sampled_from(["vertex", "mid", "same_y", "same_x", "lattice", "far", "near"]))
        if not allv and mode in ("vertex", "mid", "same_y", "same_x", "near"):
            mode = "lattice"
        if mode == "vertex":
            q = list(draw(st.sampled_from(allv)))
        elif mode == "mid":
            poly = draw(st.sampled_from([p for p in polys if p["pts"]]))
            i = draw(st.integers(0, len(poly["pts"]) - 1))
            a = poly["pts"][i]
            b = poly["pts"][(i + 1) % len(poly["pts"])]
            q = [(a[0] + b[0]) // 2, (a[1] + b[1]) // 2]
        elif mode == "same_y":
            v = draw(st.sampled_from(allv))
            w = draw(st.sampled_from(allv))
            q = [w[0] + draw(st.integers(-3, 3)), v[1]]
        elif mode == "same_x":
            v = draw(st.sampled_from(allv))
            w = draw(st.sampled_from(allv))
            q = [v[0], w[1] + draw(st.integers(-3, 3))]
        elif mode == "near":
            v = draw(st.sampled_from(allv))
            q = [v[0] + draw(st.integers(-4, 4)), v[1] + draw(st.integers(-4, 4))]
        elif mode == "lattice":
            q = [draw(st.integers(-34, 34)), draw(st.integers(-34, 34))]
        else:
            q = [draw(st.integers(-2 ** 26, 2 ** 26)), draw(st.integers(-2 ** 26, 2 ** 26))]
        points.append(q)
    return {"polys": polys, "points": points}


def to_f(k):
    return k / 8.0


def check_random(ctx, case):
    polys = case["polys"]
    points = case["points"]
    lines = []
    for i, p in enumerate(polys):
        lines.append("poly new p%d 1 0 %d %s" % (i, len(p["pts"]), " ".join(fl(to_f(c)) for pt in p["pts"] for c in pt)))
        if p["rep"] is not None:
            lines.append("rep set poly p%d %s" % (i, repgen.spec(p["rep"])))
    ptxt = "%d %s" % (len(points), " ".join(fl(to_f(c)) for q in points for c in q))
    for i in range(len(polys)):
        lines.append("poly contain p%d %s" % (i, ptxt))
        lines.append("poly area p%d" % i)
    lines.append("geom inside %s %d %s" % (ptxt, len(polys), " ".join("p%d" % i for i in range(len(polys)))))
    outs = ctx.run(lines, case)
    # oracle
    cls = [[exact_contain(p["pts"], q) for q in points] for p in polys]
    nontrivial = False
    labels = []
    for i, p in enumerate(polys):
        exp = [c != "o" for c in cls[i]]
        got = outs[2 * i]
        if got["contain"] != exp:
            j = [a != b for a, b in zip(got["contain"], exp)].index(True)
            raise Violation("Polygon::contain(%s) = %s, exact oracle says %s (class %s)" %
                            ([to_f(c) for c in points[j]], got["contain"][j], exp[j], cls[i][j]),
                            case, exp, got["contain"], lines)
        if got["all"] != all(exp):
            raise Violation("contain_all = %s, expected %s" % (got["all"], all(exp)), case, all(exp), got["all"], lines)
        if got["any"] != any(exp):
            raise Violation("contain_any = %s, expected %s" % (got["any"], any(exp)), case, any(exp), got["any"], lines)
        if "b" in cls[i]:
            nontrivial = True
            labels.append("query_on_boundary")
        ys = {pt[1] for pt in p["pts"]}
        if any(q[1] in ys for q in points):
            nontrivial = True
            labels.append("query_shares_ordinate")
        if len({tuple(pt) for pt in p["pts"]}) < len(p["pts"]):
            nontrivial = True
            labels.append("repeated_vertex")
        # measures
        m = outs[2 * i + 1]
        n = len(p["pts"])
        copies = repgen.count(p["rep"]) if p["rep"] is not None else 1
        if n < 3:
            ea = esa = ep = 0.0
        else:
            s2 = shoelace2(p["pts"])
            esa = s2 / 2.0 / 64.0
            ea = abs(s2) / 2.0 / 64.0 * copies
            ep = math.fsum(math.sqrt((p["pts"][k][0] - p["pts"][(k + 1) % n][0]) ** 2 +
                                     (p["pts"][k][1] - p["pts"][(k + 1) % n][1]) ** 2) for k in range(n)) / 8.0 * copies
        for name, e in (("signed_area", esa), ("area", ea), ("perimeter", ep)):
            g = m[name]
            if not (abs(g - e) <= 1e-12 * max(abs(e), 1e-300) or g == e):
                raise Violation("%s = %r, expected %r (n=%d, copies=%d)" % (name, g, e, n, copies), case, e, g, lines)
        if p["rep"] is not None:
            labels.append("with_repetition")
        labels.append("n_vertices_%s" % ("lt3" if n < 3 else "le8" if n <= 8 else "gt8"))
    g = outs[-1]
    exp_inside = [any(cls[i][j] != "o" for i in range(len(polys))) for j in range(len(points))]
    if g["inside"] != exp_inside:
        raise Violation("inside() = %s, expected %s" % (g["inside"], exp_inside), case, exp_inside, g["inside"], lines)
    if g["all"] != all(exp_inside):
        raise Violation("all_inside = %s, expected %s" % (g["all"], all(exp_inside)), case, all(exp_inside), g["all"], lines)
    if g["any"] != any(exp_inside):
        raise Violation("any_inside = %s, expected %s" % (g["any"], any(exp_inside)), case, any(exp_inside), g["any"], lines)
    if not points:
        labels.append("no_points")
    if not polys:
        labels.append("no_polygons")
    ctx.stats.note(case, nontrivial, labels)


def check_enum(ctx, case):
    maxlen, nparts, part = case["maxlen"], case["nparts"], case["part"]
    outs = ctx.run(["geom enum %d 4 %d %d" % (maxlen, nparts, part)], case, timeout=3000)
    r = outs[0]
    ctx.stats.count("enum_lists", r["lists"])
    ctx.stats.count("enum_contain_calls", r["calls"])
    ctx.stats.count("enum_on_boundary", r["on_boundary"])
    ctx.stats.count("enum_inside", r["inside"])
    ctx.stats.evaluations += r["calls"]
    ctx.stats.count("enum_nontrivial", r["on_boundary"] + r["inside"])
    if r["mismatches"]:
        f = r["first"]
        pts = []
        c = f["code"]
        for _ in range(f["len"]):
            v = c % 16
            c //= 16
            pts.append([v % 4, v // 4])
        raise Violation("exhaustive: contain(%s) on %s = %s, exact oracle %s (%d mismatches in this part)" %
                        (f["q"], pts, bool(f["got"]), bool(f["want"]), r["mismatches"]),
                        {"enum_witness": {"pts": pts, "q": f["q"]}}, bool(f["want"]), bool(f["got"]))


def check_witness(ctx, case):
    w = case["enum_witness"]
    pts = w["pts"]
    q = w["q"]
    lines = ["poly new p0 1 0 %d %s" % (len(pts), " ".join(fl(c) for p in pts for c in p)),
             "poly contain p0 1 %s %s" % (fl(q[0]), fl(q[1]))]
    outs = ctx.run(lines, case)
    want = exact_contain([[2 * a, 2 * b] for a, b in pts], [int(round(2 * q[0])), int(round(2 * q[1]))]) != "o"
    if outs[0]["contain"][0] != want:
        raise Violation("contain(%s) on %s = %s, exact oracle %s" % (q, pts, outs[0]["contain"][0], want), case, want,
                        outs[0]["contain"][0], lines)


def run_worker(ctx):
    vs = []
    maxlen = 4 if ctx.tier == "quick" else 5
    ctx.driver.watchdog = 3000
    try:
        check_enum(ctx, {"maxlen": maxlen, "nparts": ctx.nworkers, "part": ctx.worker})
    except Violation as v:
        v.test = "witness"
        vs.append(v)
    ctx.driver.stop()
    ctx.driver.watchdog = 20
    n = 20000 if ctx.tier == "quick" else 400000
    v = ctx.hypothesis(check_random, case_strategy(), ctx.share(n), "random")
    if v:
        vs.append(v)
    return vs


def replay(ctx, test, case, ignore_known=False):
    if "enum_witness" in case:
        return check_witness(ctx, case)
    return check_random(ctx, case)


def extra_coverage(total):
    nt = total.extra.get("enum_nontrivial", 0)
    return {"exhaustive": False, "exhaustive_part": {"lists": total.extra.get("enum_lists", 0),
                                                      "contain_calls": total.extra.get("enum_contain_calls", 0),
                                                      "nontrivial_pairs": nt, "complete": True},
            "distinct_nontrivial": len(total.nontrivial) + nt}
