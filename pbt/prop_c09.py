"""C09 - bounding boxes and convex hulls are exact for any hierarchy."""
import math

from hypothesis import strategies as st

from common import Violation, fl
import layoutgen as lg
import flatmodel as fm
import prop_c06

LEVEL = "exploration"
RULE = ("Hypothesis cases: acyclic hierarchies (2-4 cells, chains to depth 3) with polygons, paths, labels, every repetition kind "
        "incl. explicit offset lists on references and elements, rotations that are / are not multiples of 90 degrees, "
        "reflections, magnifications, and degenerate contents (cells holding only collinear label positions - vertical, "
        "horizontal, diagonal, anti-diagonal - a single repeated point, empty cells, cells whose only content is an empty "
        "cell); queries: Cell::bounding_box and convex_hull uncached, then with a shared cache in a drawn order (box first / "
        "hull first / children first), Reference::bounding_box/convex_hull, Polygon/Label::bounding_box. Oracle: geometry "
        "flattened by hand (polygon vertices and label origins through 2x3 matrix products; path outlines taken from "
        "get_polygons, judged in C06/C07/C08): the box is the exact min/max (1e-9 relative), empty -> min.x > max.x; every "
        "geometry point is inside or on the hull, every hull vertex is a geometry point, the hull is convex; cached == "
        "uncached. Non-trivial: depth >= 2 with a rotation that is not a multiple of 90 degrees, or an explicit repetition, "
        "or degenerate content; distinct by case hash")
ASSUMPTIONS = ["path outlines are taken from gdstk (their correctness is C07/C08's subject)", "tolerance 1e-9 relative to the layout extent"]


@st.composite
def case_strategy(draw):
    mode = draw(st.sampled_from(["general", "general", "degenerate"]))
    if mode == "general":
        lib = draw(lg.library(ncells=(2, 4), size=400, origin_mag=0, props=lambda: st.just([]), path_kinds=("outline_fp", "simple_fp", "rp"),
                              unit_choices=((1e-6, 1e-9),), allow_name_refs=True, elements=(0, 2), rep_st=prop_c06.small_rep, small_counts=True,
                              npaths=(0, 1), nlabels=(0, 2), nrefs=(0, 2)))
    else:
        # leaf cell with collinear / single-point / no content, referenced through 1-2 levels
        n = draw(st.integers(2, 3))
        cells = [{"name": "C%d" % i, "polys": [], "paths": [], "labels": [], "refs": []} for i in range(n)]
        kind = draw(st.sampled_from(["vertical", "horizontal", "diagonal", "antidiagonal", "single", "empty", "two_points"]))
        k = draw(st.integers(2, 6))
        pts = {"vertical": [(5.0, 3.0 * i) for i in range(k)], "horizontal": [(4.0 * i, -2.0) for i in range(k)],
               "diagonal": [(2.0 * i, 2.0 * i) for i in range(k)], "antidiagonal": [(3.0 * i, 30.0 - 3.0 * i) for i in range(k)],
               "single": [(7.0, -3.0)] * k, "empty": [], "two_points": [(1.0, 2.0), (9.0, -4.0)]}[kind]
        for i, p in enumerate(pts):
            cells[-1]["labels"].append({"text": "l%d" % i, "tag": [1, 0], "origin": list(p), "anchor": 0, "rot": 0.0, "mag": 1.0, "xr": False, "rep": None, "props": []})
        lib = {"name": "LIB", "unit": 1e-6, "precision": 1e-9, "cells": cells, "degenerate": kind}
    nc = len(lib["cells"])
    for i in range(nc - 1):
        if mode == "degenerate" or (draw(st.integers(0, 9)) < 7 and not any(r["kind"] == "cell" and r["target"] == i + 1 for r in lib["cells"][i]["refs"])):
            r = draw(lg.reference(1, size=400, props=lambda: st.just([]), allow_name=False, rep_st=prop_c06.small_rep, small_counts=True))
            r["kind"], r["target"] = "cell", i + 1
            lib["cells"][i]["refs"].append(r)
    for c in lib["cells"]:
        for r in c["refs"]:
            if r["mag"] < 0.1:
                r["mag"] = 0.25
    order = draw(st.permutations(["box0", "hull0", "boxN", "hullN", "box0", "hull0"]))
    return {"lib": lib, "order": list(order)}


def inside_or_on(hull, p, tol):
    """p inside or on the convex polygon hull (either orientation)"""
    n = len(hull)
    if n == 0:
        return False
    if n == 1:
        return math.hypot(p[0] - hull[0][0], p[1] - hull[0][1]) <= tol
    if n == 2:
        return fm.seg_dist(p, hull[0], hull[1]) <= tol
    sign = 0
    for i in range(n):
        a, b = hull[i], hull[(i + 1) % n]
        cr = (b[0] - a[0]) * (p[1] - a[1]) - (b[1] - a[1]) * (p[0] - a[0])
        l = math.hypot(b[0] - a[0], b[1] - a[1])
        if abs(cr) <= tol * max(l, 1e-300):
            continue
        s = 1 if cr > 0 else -1
        if sign == 0:
            sign = s
        elif s != sign:
            return False
    return True


def check(ctx, case):
    lib = case["lib"]
    g = lib["precision"] / lib["unit"]
    lines, qindex = lg.build_script(lib, "L", queries=False)
    nc = len(lib["cells"])
    # reference handles of cell 0
    q = []
    for ci in range(nc):
        q.append("hier get_polygons L.c%d 1 1 -1 0 0 0 -" % ci)      # geometry incl. path outlines (expanded)
    for ci in range(nc):
        q.append("hier bbox L.c%d -" % ci)
        q.append("hier hull L.c%d -" % ci)
    # cached sequence on a shared cache
    for step in case["order"]:
        ci = 0 if step.endswith("0") else nc - 1
        q.append("hier %s L.c%d K" % ("bbox" if step.startswith("box") else "hull", ci))
    nref = len(lib["cells"][0]["refs"])
    for ri in range(nref):
        q.append("hier ref_bbox L.c0.r%d -" % ri)
        q.append("hier ref_hull L.c0.r%d -" % ri)
        q.append("hier ref_bbox L.c0.r%d K" % ri)
    npoly = len(lib["cells"][0]["polys"])
    for pi in range(npoly):
        q.append("poly bbox L.c0.p%d" % pi)
    nlab = len(lib["cells"][0]["labels"])
    for li in range(nlab):
        q.append("label bbox L.c0.l%d" % li)
    outs = ctx.run(lines + q, case)

    def fail(msg, e=None, o=None):
        raise Violation(msg, case, e, o, lines + q)
    # ---- expected point sets per cell
    pts = []
    for ci in range(nc):
        P = []
        for e, A in prop_c06.flat(lib, ci, -1, "polys"):
            P += [A((x, y)) for x, y in e["pts"]]
        for e, A in prop_c06.flat(lib, ci, -1, "labels"):
            P.append(A(tuple(e["origin"])))
        hand = len(P)
        for p in outs[ci]["result"]:
            P += [(x / g, y / g) for x, y in p["pts"]]
        pts.append(P)
    pos = nc
    results = []
    for ci in range(nc):
        box, hull = outs[pos], outs[pos + 1]
        pos += 2
        P = pts[ci]
        results.append((box, hull))
        scale = max([1.0] + [abs(v) for p in P for v in p])
        tol = 1e-9 * scale
        bmin = (box["min"][0] / g, box["min"][1] / g)
        bmax = (box["max"][0] / g, box["max"][1] / g)
        if not P:
            if not bmin[0] > bmax[0]:
                fail("cell %d is empty but bounding_box reports %s..%s (an empty object must report min.x > max.x)" % (ci, bmin, bmax))
            if hull["hull"]:
                fail("cell %d is empty but convex_hull reports %s" % (ci, hull["hull"]))
            continue
        ex = (min(p[0] for p in P), min(p[1] for p in P), max(p[0] for p in P), max(p[1] for p in P))
        got = (bmin[0], bmin[1], bmax[0], bmax[1])
        if any(abs(a - b) > tol for a, b in zip(ex, got)):
            fail("cell %d: bounding_box %s, the flattened geometry spans %s" % (ci, tuple(round(v, 6) for v in got), tuple(round(v, 6) for v in ex)), ex, got)
        H = [(x / g, y / g) for x, y in hull["hull"]]
        if not H:
            fail("cell %d: convex_hull is empty although the cell holds %d geometry points (e.g. %s)" % (ci, len(P), P[:3]), P[:6], H)
        for h in H:
            if not any(abs(h[0] - p[0]) <= tol and abs(h[1] - p[1]) <= tol for p in P):
                fail("cell %d: hull corner %s is not a geometry point" % (ci, tuple(round(v, 6) for v in h)), P[:8], H)
        for p in P:
            if not inside_or_on(H, p, 10 * tol):
                fail("cell %d: geometry point %s lies outside the reported convex hull %s" % (ci, tuple(round(v, 6) for v in p), [tuple(round(v, 4) for v in h) for h in H]), p, H)
        if len(H) >= 3:
            sg = 0
            for i in range(len(H)):
                a, b, c = H[i], H[(i + 1) % len(H)], H[(i + 2) % len(H)]
                cr = (b[0] - a[0]) * (c[1] - b[1]) - (b[1] - a[1]) * (c[0] - b[0])
                if abs(cr) > tol * scale:
                    s = 1 if cr > 0 else -1
                    if sg and s != sg:
                        fail("cell %d: the reported hull is not convex: %s" % (ci, H), None, H)
                    sg = s
    # ---- cached sequence
    for step in case["order"]:
        ci = 0 if step.endswith("0") else nc - 1
        o = outs[pos]
        pos += 1
        box, hull = results[ci]
        if step.startswith("box"):
            sc_box = max([1e-300] + [abs(v) for v in o["min"] + o["max"] + box["min"] + box["max"] if abs(v) < 1e300])

            def same(a, b):
                return all(abs(x - y) <= 1e-12 * sc_box for x, y in zip(a, b))
            # the cached route may go through the stored hull and the uncached one through box corners: equal up to rounding
            if not (same(o["min"], box["min"]) and same(o["max"], box["max"])):
                # an empty cell reports an inverted box either way
                if not (o["min"][0] > o["max"][0] and box["min"][0] > box["max"][0]):
                    fail("cached bounding_box of cell %d (%s..%s, call order %s) differs from the uncached one (%s..%s)" %
                         (ci, o["min"], o["max"], case["order"], box["min"], box["max"]), box, o)
        else:
            ha, hb = sorted(map(tuple, o["hull"])), sorted(map(tuple, hull["hull"]))
            sc = max([1e-300] + [abs(v) for p in ha + hb for v in p])
            if len(ha) != len(hb) or any(abs(a[0] - b[0]) > 1e-12 * sc or abs(a[1] - b[1]) > 1e-12 * sc for a, b in zip(ha, hb)):
                fail("cached convex_hull of cell %d (call order %s) = %s differs from the uncached one %s" % (ci, case["order"], o["hull"], hull["hull"]), hull, o)
    # ---- references of cell 0
    for ri, r in enumerate(lib["cells"][0]["refs"]):
        rb, rh, rbc = outs[pos], outs[pos + 1], outs[pos + 2]
        pos += 3
        if r["kind"] != "cell":
            if not rb["min"][0] > rb["max"][0]:
                fail("by-name reference %d reports a bounding box %s" % (ri, rb))
            continue
        P = []
        for Pm in fm.ref_placements(r):
            P += [Pm(p) for p in pts[r["target"]]]
        sc_ = max([1e-300] + [abs(v) for v in rb["min"] + rb["max"] if abs(v) < 1e300])
        if any(abs(a - b) > 1e-12 * sc_ for a, b in zip(rb["min"] + rb["max"], rbc["min"] + rbc["max"])):
            if not (rb["min"][0] > rb["max"][0] and rbc["min"][0] > rbc["max"][0]):
                fail("reference %d: cached bounding box %s differs from the uncached one %s" % (ri, rbc, rb), rb, rbc)
        if not P:
            if not rb["min"][0] > rb["max"][0]:
                fail("reference %d to an empty cell reports box %s" % (ri, rb))
            continue
        scale = max([1.0] + [abs(v) for p in P for v in p])
        tol = 1e-9 * scale
        ex = (min(p[0] for p in P), min(p[1] for p in P), max(p[0] for p in P), max(p[1] for p in P))
        got = (rb["min"][0] / g, rb["min"][1] / g, rb["max"][0] / g, rb["max"][1] / g)
        if any(abs(a - b) > tol for a, b in zip(ex, got)):
            fail("reference %d (rot %r mag %r xr %s rep %s): bounding_box %s, the placed geometry spans %s" %
                 (ri, r["rot"], r["mag"], r["xr"], r["rep"], tuple(round(v, 6) for v in got), tuple(round(v, 6) for v in ex)), ex, got)
        H = [(x / g, y / g) for x, y in rh["hull"]]
        for p in P:
            if not inside_or_on(H, p, 10 * tol):
                fail("reference %d (rep %s): placed geometry point %s lies outside the reported hull" % (ri, r["rep"], tuple(round(v, 6) for v in p)), p, H)
        for h in H:
            if not any(abs(h[0] - p[0]) <= tol and abs(h[1] - p[1]) <= tol for p in P):
                fail("reference %d: hull corner %s is not a geometry point" % (ri, tuple(round(v, 6) for v in h)), None, H)
    # ---- polygons / labels of cell 0
    import repgen
    for pi, p in enumerate(lib["cells"][0]["polys"]):
        o = outs[pos]
        pos += 1
        offs = repgen.offsets(p["rep"]) if p["rep"] is not None else [(0.0, 0.0)]
        P = [(x + ox, y + oy) for x, y in p["pts"] for ox, oy in offs]
        ex = (min(q_[0] for q_ in P), min(q_[1] for q_ in P), max(q_[0] for q_ in P), max(q_[1] for q_ in P))
        got = (o["min"][0] / g, o["min"][1] / g, o["max"][0] / g, o["max"][1] / g)
        scale = max([1.0] + [abs(v) for v in ex])
        if any(abs(a - b) > 1e-9 * scale for a, b in zip(ex, got)):
            fail("Polygon::bounding_box with repetition %s: %s, expected %s" % (p["rep"], got, ex), ex, got)
    for li, l in enumerate(lib["cells"][0]["labels"]):
        o = outs[pos]
        pos += 1
        offs = repgen.offsets(l["rep"]) if l["rep"] is not None else [(0.0, 0.0)]
        P = [(l["origin"][0] + ox, l["origin"][1] + oy) for ox, oy in offs]
        ex = (min(q_[0] for q_ in P), min(q_[1] for q_ in P), max(q_[0] for q_ in P), max(q_[1] for q_ in P))
        got = (o["min"][0] / g, o["min"][1] / g, o["max"][0] / g, o["max"][1] / g)
        scale = max([1.0] + [abs(v) for v in ex])
        if any(abs(a - b) > 1e-9 * scale for a, b in zip(ex, got)):
            fail("Label::bounding_box with repetition %s: %s, expected %s" % (l["rep"], got, ex), ex, got)
    deep = any(r["kind"] == "cell" and any(r2["kind"] == "cell" for r2 in lib["cells"][r["target"]]["refs"]) for c in lib["cells"] for r in c["refs"])
    oblique = any(r["kind"] == "cell" and abs(r["rot"] / (math.pi / 2) - round(r["rot"] / (math.pi / 2))) > 1e-9 for c in lib["cells"] for r in c["refs"])
    explicit = any((e.get("rep") or {}).get("type") == "explicit" for c in lib["cells"] for e in c["polys"] + c["labels"] + c["refs"] + c["paths"])
    labels = ["degenerate_" + lib["degenerate"]] if "degenerate" in lib else ["general"]
    if deep:
        labels.append("depth>=2")
    if oblique:
        labels.append("oblique_rotation")
    if explicit:
        labels.append("explicit_repetition")
    ctx.stats.note(case, (deep and oblique) or explicit or "degenerate" in lib, labels)


def run_worker(ctx):
    n = 1500 if ctx.tier == "quick" else 25000
    v = ctx.hypothesis(check, case_strategy(), ctx.share(n), "bbox")
    return [v] if v else []


def replay(ctx, test, case, ignore_known=False):
    return check(ctx, case)
