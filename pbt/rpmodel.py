"""Analytic model of a RobustPath call history (C08): sections S(u), S'(u); interpolations w(u), o(u); centre and edges."""
import math

import numpy as np


def bez(ctrl, u):
    pts = np.repeat(np.asarray(ctrl, dtype=float)[None, :, :], len(u), axis=0)
    t = np.asarray(u, dtype=float)[:, None, None]
    while pts.shape[1] > 1:
        pts = pts[:, :-1, :] * (1 - t) + pts[:, 1:, :] * t
    return pts[:, 0, :]


class Section:
    kind = "?"
    approx = False      # shape depends on a finite-difference gradient upstream: compared with a looser tolerance
    numgrad = False     # parametric section without a gradient function

    def pos(self, u):      # u: numpy array in [0,1]
        raise NotImplementedError

    def grad(self, u):
        raise NotImplementedError

    def pos_ext(self, u):
        """with the documented linear extrapolation outside [0,1]"""
        u = np.asarray(u, dtype=float)
        uc = np.clip(u, 0, 1)
        p = self.pos(uc)
        g = self.grad(uc)
        return p + g * (u - uc)[:, None]


class Seg(Section):
    kind = "seg"

    def __init__(self, a, b):
        self.a, self.b = np.array(a, dtype=float), np.array(b, dtype=float)

    def pos(self, u):
        return self.a[None, :] + (self.b - self.a)[None, :] * u[:, None]

    def grad(self, u):
        return np.repeat((self.b - self.a)[None, :], len(u), axis=0)


class Arc(Section):
    kind = "arc"

    def __init__(self, start, rx, ry, a0, a1, rot):
        # angles are the ellipse parameter angles (robustpath.hpp, struct SubPath): x = rx cos(a), y = ry sin(a)
        self.rx, self.ry, self.a0, self.a1 = rx, ry, a0 - rot, a1 - rot
        self.cr, self.sr = math.cos(rot), math.sin(rot)
        x, y = rx * math.cos(self.a0), ry * math.sin(self.a0)
        self.c = np.array([start[0] - (x * self.cr - y * self.sr), start[1] - (x * self.sr + y * self.cr)])

    def pos(self, u):
        a = self.a0 + (self.a1 - self.a0) * u
        x, y = self.rx * np.cos(a), self.ry * np.sin(a)
        return self.c[None, :] + np.stack([x * self.cr - y * self.sr, x * self.sr + y * self.cr], axis=1)

    def grad(self, u):
        a = self.a0 + (self.a1 - self.a0) * u
        dx, dy = -self.rx * (self.a1 - self.a0) * np.sin(a), self.ry * (self.a1 - self.a0) * np.cos(a)
        return np.stack([dx * self.cr - dy * self.sr, dx * self.sr + dy * self.cr], axis=1)


class Bez(Section):
    kind = "bez"

    def __init__(self, ctrl):
        self.ctrl = [tuple(p) for p in ctrl]
        n = len(ctrl) - 1
        self.d = [(n * (ctrl[i + 1][0] - ctrl[i][0]), n * (ctrl[i + 1][1] - ctrl[i][1])) for i in range(n)]

    def pos(self, u):
        return bez(self.ctrl, u)

    def grad(self, u):
        return bez(self.d, u)


PFN = [lambda u, p: (p[0] * u, p[1] * u), lambda u, p: (p[0] * u, p[1] * u * u), lambda u, p: (p[0] * u, p[1] * np.sin(p[2] * u)),
       lambda u, p: (p[0] * np.sin(p[2] * u), p[0] * (1 - np.cos(p[2] * u))), lambda u, p: (p[0] * u + p[1] * u ** 3, p[2] * u * u)]
PGR = [lambda u, p: (p[0] + 0 * u, p[1] + 0 * u), lambda u, p: (p[0] + 0 * u, 2 * p[1] * u), lambda u, p: (p[0] + 0 * u, p[1] * p[2] * np.cos(p[2] * u)),
       lambda u, p: (p[0] * p[2] * np.cos(p[2] * u), p[0] * p[2] * np.sin(p[2] * u)), lambda u, p: (p[0] + 3 * p[1] * u * u, 2 * p[2] * u)]


class Par(Section):
    kind = "par"

    def __init__(self, ref, f, prm):
        self.ref, self.f, self.prm = np.array(ref, dtype=float), f, prm

    def pos(self, u):
        x, y = PFN[self.f](u, self.prm)
        return np.stack([x, y], axis=1) + self.ref[None, :]

    def grad(self, u):
        x, y = PGR[self.f](u, self.prm)
        return np.stack([x, y], axis=1)


def interp_fn(spec):
    """spec: ["c", v] | ["l", a, b] | ["s", a, b] | ["p", f, a, b, c]"""
    k = spec[0]
    if k == "c":
        return lambda u: np.full(len(u), float(spec[1]))
    if k == "l":
        return lambda u: spec[1] + (spec[2] - spec[1]) * np.clip(u, 0, 1)
    if k == "s":
        def f(u):
            u = np.clip(u, 0, 1)
            return spec[1] + (spec[2] - spec[1]) * (3 - 2 * u) * u * u
        return f
    fi, a, b = spec[1], spec[2], spec[3]
    if fi == 0:
        return lambda u: a + b * np.clip(u, 0, 1)
    if fi == 1:
        return lambda u: a + b * np.sin(math.pi * np.clip(u, 0, 1))
    return lambda u: a + b * np.clip(u, 0, 1) ** 2


def spec_text(specs):
    if specs is None:
        return "-"
    from common import fl
    out = ["W"]
    for s in specs:
        if s[0] == "c":
            out += ["c", fl(s[1])]
        elif s[0] in ("l", "s"):
            out += [s[0], fl(s[1]), fl(s[2])]
        else:
            out += ["p", str(s[1]), fl(s[2]), fl(s[3]), fl(s[4])]
    return " ".join(out)


class History:
    """mirror of the meaning of the construction calls"""

    def __init__(self, start, widths, offsets):
        self.end = (float(start[0]), float(start[1]))
        self.sections = []
        self.n = len(widths)
        self.w = [[] for _ in widths]      # per element: list of interpolation specs, one per section
        self.o = [[] for _ in widths]
        self.end_w = list(widths)
        self.end_o = list(offsets)

    def _fill(self, w, o, count=1):
        for _ in range(count):
            for i in range(self.n):
                self.w[i].append(["c", self.end_w[i]] if w is None else w[i])
                self.o[i].append(["c", self.end_o[i]] if o is None else o[i])
        one = np.array([1.0])
        for i in range(self.n):
            if w is not None:
                self.end_w[i] = float(interp_fn(w[i])(one)[0])
            if o is not None:
                self.end_o[i] = float(interp_fn(o[i])(one)[0])

    def last_grad(self):
        if not self.sections:
            return None
        g = self.sections[-1].grad(np.array([1.0]))[0]
        return (float(g[0]), float(g[1]))

    def ab(self, p, rel):
        return (self.end[0] + p[0], self.end[1] + p[1]) if rel else (float(p[0]), float(p[1]))

    def add(self, c):
        k, rel, b, w, o = c["k"], c.get("rel", False), c["body"], c.get("w"), c.get("o")
        e = self.end
        if k == "seg":
            q = self.ab(b, rel)
            self.sections.append(Seg(e, q))
            self.end = q
        elif k == "hor":
            q = ((e[0] + b) if rel else b, e[1])
            self.sections.append(Seg(e, q))
            self.end = q
        elif k == "ver":
            q = (e[0], (e[1] + b) if rel else b)
            self.sections.append(Seg(e, q))
            self.end = q
        elif k == "cubic":
            P = [self.ab(p, rel) for p in b]
            self.sections.append(Bez([e] + P))
            self.end = P[-1]
        elif k == "cubic_smooth":
            g = self.last_grad()
            p1 = e if g is None else (e[0] + g[0] / 3, e[1] + g[1] / 3)
            P = [self.ab(p, rel) for p in b]
            self.sections.append(Bez([e, p1] + P))
            self.end = P[-1]
        elif k == "quad":
            P = [self.ab(p, rel) for p in b]
            self.sections.append(Bez([e] + P))
            self.end = P[-1]
        elif k == "quad_smooth":
            g = self.last_grad()
            p1 = e if g is None else (e[0] + g[0] / 2, e[1] + g[1] / 2)
            q = self.ab(b, rel)
            self.sections.append(Bez([e, p1, q]))
            self.end = q
        elif k == "bezier":
            P = [self.ab(p, rel) for p in b]
            self.sections.append(Bez([e] + P))
            self.end = P[-1]
        elif k == "arc":
            s = Arc(e, *b)
            self.sections.append(s)
            q = s.pos(np.array([1.0]))[0]
            self.end = (float(q[0]), float(q[1]))
        elif k == "turn":
            g = self.last_grad() or (1.0, 0.0)
            r, ang = b
            ia = math.atan2(g[1], g[0]) + (0.5 * math.pi if ang < 0 else -0.5 * math.pi)
            s = Arc(e, r, r, ia, ia + ang, 0.0)
            self.sections.append(s)
            q = s.pos(np.array([1.0]))[0]
            self.end = (float(q[0]), float(q[1]))
        elif k == "param":
            s = Par(e if rel else (0.0, 0.0), b[0], b[1])
            self.sections.append(s)
            q = s.pos(np.array([1.0]))[0]
            self.end = (float(q[0]), float(q[1]))
        else:
            raise ValueError(k)
        sec = self.sections[-1]
        prev = self.sections[-2] if len(self.sections) >= 2 else None
        sec.numgrad = k == "param" and not (len(b) > 2 and b[2])
        if prev is not None and (prev.approx or (k in ("turn", "cubic_smooth", "quad_smooth") and prev.numgrad)):
            sec.approx = True      # start point or direction inherited from a finite-difference gradient
        self._fill(w, o)

    # ---- derived curves of element i on section s
    def centre(self, i, s, u):
        sec = self.sections[s]
        g = sec.grad(np.clip(u, 0, 1))
        l = np.hypot(g[:, 0], g[:, 1])
        l = np.where(l == 0, 1e-300, l)
        N = np.stack([-g[:, 1] / l, g[:, 0] / l], axis=1)
        o = interp_fn(self.o[i][s])(u)
        return sec.pos_ext(u) + N * o[:, None]

    def halfwidth(self, i, s, u):
        return 0.5 * interp_fn(self.w[i][s])(u)
