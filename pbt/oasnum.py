"""Reference OASIS primitive codecs (arbitrary precision), written from DESIGN.md Appendix A.2.
Encoders take an optional `pad` (number of superfluous continuation groups, a legal non-minimal form)."""
import struct
from fractions import Fraction


class Short(Exception):
    pass


class Reader:
    def __init__(self, data, pos=0):
        self.d = data
        self.p = pos

    def byte(self):
        if self.p >= len(self.d):
            raise Short()
        b = self.d[self.p]
        self.p += 1
        return b

    def take(self, n):
        if self.p + n > len(self.d):
            raise Short()
        b = self.d[self.p:self.p + n]
        self.p += n
        return b

    def peek(self):
        if self.p >= len(self.d):
            raise Short()
        return self.d[self.p]


def enc_uint(v, pad=0):
    assert v >= 0
    out = bytearray()
    while True:
        b = v & 0x7F
        v >>= 7
        if v or pad:
            out.append(b | 0x80)
            if not v:
                for i in range(pad):
                    out.append(0x80 if i < pad - 1 else 0x00)
                break
        else:
            out.append(b)
            break
    return bytes(out)


def dec_uint(r):
    v = 0
    shift = 0
    while True:
        b = r.byte()
        v |= (b & 0x7F) << shift
        shift += 7
        if not b & 0x80:
            return v


def enc_packed(mag, low_bits, nlow, pad=0):
    """magnitude with nlow low bits of flags packed into the first group"""
    return enc_uint((mag << nlow) | low_bits, pad)


def enc_sint(v, pad=0):
    return enc_packed(abs(v), 1 if v < 0 else 0, 1, pad)


def dec_sint(r):
    u = dec_uint(r)
    return -(u >> 1) if u & 1 else (u >> 1)


DIR2 = {0: (1, 0), 1: (0, 1), 2: (-1, 0), 3: (0, -1)}
DIR3 = {0: (1, 0), 1: (0, 1), 2: (-1, 0), 3: (0, -1), 4: (1, 1), 5: (-1, 1), 6: (-1, -1), 7: (1, -1)}


def dir_of(x, y, table):
    m = max(abs(x), abs(y))
    if m == 0:
        return None
    for k, (dx, dy) in table.items():
        if (dx * m, dy * m) == (x, y):
            return k, m
    return None


def enc_2delta(x, y, pad=0, zero_dir=0):
    if x == 0 and y == 0:
        return enc_packed(0, zero_dir, 2, pad)
    k, m = dir_of(x, y, DIR2)
    return enc_packed(m, k, 2, pad)


def dec_2delta(r):
    u = dec_uint(r)
    dx, dy = DIR2[u & 3]
    m = u >> 2
    return dx * m, dy * m


def enc_3delta(x, y, pad=0, zero_dir=0):
    if x == 0 and y == 0:
        return enc_packed(0, zero_dir, 3, pad)
    k, m = dir_of(x, y, DIR3)
    return enc_packed(m, k, 3, pad)


def dec_3delta(r):
    u = dec_uint(r)
    dx, dy = DIR3[u & 7]
    m = u >> 3
    return dx * m, dy * m


def enc_gdelta(x, y, form=None, pad=0, zero_dir=0):
    """form 0 = single-integer (octangular) form, 1 = two-integer form; None = shortest legal choice (0 when possible)"""
    oct_ok = (x == 0 and y == 0) or dir_of(x, y, DIR3) is not None
    if form is None:
        form = 0 if oct_ok else 1
    if form == 0:
        assert oct_ok
        if x == 0 and y == 0:
            return enc_packed(0, zero_dir << 1, 4, pad)
        k, m = dir_of(x, y, DIR3)
        return enc_packed(m, k << 1, 4, pad)
    first = enc_packed(abs(x), 1 | (2 if x < 0 else 0), 2, pad)
    return first + enc_sint(y, pad)


def dec_gdelta(r):
    if r.peek() & 1 == 0:
        u = dec_uint(r)
        dx, dy = DIR3[(u >> 1) & 7]
        m = u >> 4
        return dx * m, dy * m
    u = dec_uint(r)
    x = u >> 2
    if u & 2:
        x = -x
    y = dec_sint(r)
    return x, y


# ---- reals: value is returned as an exact Fraction (or float for IEEE forms)
def enc_real(kind, a=0, b=1, pad=0):
    """kind 0..7; a (and b for ratios) non-negative integers, or a float for kinds 6/7"""
    if kind in (0, 1, 2, 3):
        return bytes([kind]) + enc_uint(a, pad)
    if kind in (4, 5):
        return bytes([kind]) + enc_uint(a, pad) + enc_uint(b, pad)
    if kind == 6:
        return bytes([6]) + struct.pack("<f", a)
    return bytes([7]) + struct.pack("<d", a)


def dec_real(r, kind=None):
    if kind is None:
        kind = r.byte()
    if kind == 0:
        return Fraction(dec_uint(r))
    if kind == 1:
        return -Fraction(dec_uint(r))
    if kind == 2:
        return Fraction(1, dec_uint(r))
    if kind == 3:
        return -Fraction(1, dec_uint(r))
    if kind == 4:
        a = dec_uint(r)
        return Fraction(a, dec_uint(r))
    if kind == 5:
        a = dec_uint(r)
        return -Fraction(a, dec_uint(r))
    if kind == 6:
        return Fraction(struct.unpack("<f", r.take(4))[0])
    if kind == 7:
        return Fraction(struct.unpack("<d", r.take(8))[0])
    raise ValueError("real type %d" % kind)


# ---- point lists.  `deltas` are successive displacement vectors.
def plist_types_for(deltas, closed_implicit=None):
    """which explicit list types (2,3,4,5) can express this delta sequence"""
    types = [4, 5]
    if all(dx == 0 or dy == 0 for dx, dy in deltas):
        types.append(2)
    if all(dx == 0 or dy == 0 or abs(dx) == abs(dy) for dx, dy in deltas):
        types.append(3)
    return types


def enc_plist(ltype, deltas, pad=0, gform=None):
    out = bytearray([ltype]) + enc_uint(len(deltas), pad)
    if ltype in (0, 1):
        horiz = ltype == 0
        for dx, dy in deltas:
            if horiz:
                assert dy == 0
                out += enc_sint(dx, pad)
            else:
                assert dx == 0
                out += enc_sint(dy, pad)
            horiz = not horiz
    elif ltype == 2:
        for dx, dy in deltas:
            out += enc_2delta(dx, dy, pad)
    elif ltype == 3:
        for dx, dy in deltas:
            out += enc_3delta(dx, dy, pad)
    elif ltype == 4:
        for dx, dy in deltas:
            out += enc_gdelta(dx, dy, gform if (gform == 1 or dir_of(dx, dy, DIR3) or (dx, dy) == (0, 0)) else 1, pad)
    elif ltype == 5:
        px, py = 0, 0
        for dx, dy in deltas:
            ddx, ddy = dx - px, dy - py
            out += enc_gdelta(ddx, ddy, gform if (gform == 1 or dir_of(ddx, ddy, DIR3) or (ddx, ddy) == (0, 0)) else 1, pad)
            px, py = dx, dy
    return bytes(out)


def dec_plist(r, closed):
    """returns the list of vertices relative to the implicit start (0,0), start not included.
    For types 0/1 in a closed list the implicit closing vertex is appended."""
    ltype = r.byte()
    n = dec_uint(r)
    pts = []
    x = y = 0
    if ltype in (0, 1):
        horiz = ltype == 0
        for _ in range(n):
            d = dec_sint(r)
            if horiz:
                x += d
            else:
                y += d
            horiz = not horiz
            pts.append((x, y))
        if closed:
            if horiz:
                pts.append((0, y))
            else:
                pts.append((x, 0))
    elif ltype in (2, 3, 4):
        f = {2: dec_2delta, 3: dec_3delta, 4: dec_gdelta}[ltype]
        for _ in range(n):
            dx, dy = f(r)
            x += dx
            y += dy
            pts.append((x, y))
    elif ltype == 5:
        ddx = ddy = 0
        for _ in range(n):
            a, b = dec_gdelta(r)
            ddx += a
            ddy += b
            x += ddx
            y += ddy
            pts.append((x, y))
    else:
        raise ValueError("point list type %d" % ltype)
    return ltype, pts
