"""C04 - OASIS reader and writer agree with the format specification."""
import math
import os
import zlib
from fractions import Fraction

from hypothesis import strategies as st

import layoutgen as lg
import oasmodel as om
import oasref as orf
import prop_c02
from common import Violation, WARNINGS, fl
from gdsmodel import Mismatch

LEVEL = "exploration"
RULE = ("(A, reader) abstract OASIS layouts (1-4 cells; RECTANGLE, POLYGON, PATH, TRAPEZOID with deltas of either sign and both "
        "orientations, CTRAPEZOID types 0-25, CIRCLE, TEXT, PLACEMENT in both forms with any angle/magnification, repetitions "
        "of types 1-11, properties with every value type on elements, cells and the file) serialised by an independent "
        "specification-derived encoder (pbt/oasref.py) under ~100 drawn choice points: every field explicit or taken from the "
        "modal variable when legal, XYABSOLUTE/XYRELATIVE switches, all admissible point-list types incl. the implicit "
        "Manhattan forms, g-delta forms, every exact real encoding, repetition reuse, PROPERTY value-list/name reuse and the "
        "repeat record, names inline or by reference with implicit/explicit/sparse numbering and tables before or after the "
        "cells, table offsets in START or END, CBLOCKs around cells, PAD/XELEMENT/LAYERNAME records in between, padding and "
        "all three validation schemes; gdstk loads the bytes and its dump must equal the placements the layout denotes "
        "(exact integer coordinates, tags, strings, transforms, properties in order; circles within 0.2% of the radius + read "
        "tolerance). Codec self-check: my strict decoder reproduces every generated layout from its bytes. (B, writer) "
        "C02's libraries and option sets written by gdstk and decoded by my strict decoder (modal variables must be defined "
        "before use, numbering styles not mixed, references resolvable, CBLOCK lengths exact): the decoded placements equal "
        "C02's expected library, END is 256 bytes, the validation scheme and signature match the flags and the bytes, every "
        "table offset points at the first record of its table (0 without one), and the standard properties state the truth "
        "(S_TOP_CELL = top cells of the model, S_CELL_OFFSET = offset of the CELL record, S_BOUNDING_BOX = the cell's box, "
        "S_MAX_* >= the measured maxima). Non-trivial: (A) >= 1 modal reuse and one of {relative mode, CBLOCK, name by "
        "reference, ctrapezoid}; (B) a standard-property flag or signature flag set; distinct by case hash")
ASSUMPTIONS = ["pbt/oasref.py and pbt/oasnum.py are the trusted specification-derived codec (format facts: DESIGN.md Appendix A.2)",
               "properties attached to name records other than CELLNAME are not generated",
               "bounding boxes of S_BOUNDING_BOX are compared with gdstk's own bounding_box (C09 judges those)"]

small = st.integers(-2000, 2000)
pos = st.one_of(small, small, st.sampled_from([0, 2 ** 31 - 7, -(2 ** 31) + 3, 70000, -65536]))
size = st.sampled_from([1, 2, 3, 7, 10, 64, 127, 128, 1000, 16384, 100000])
tagv = st.sampled_from([0, 1, 2, 5, 63, 64, 127, 128, 255, 65535, 2 ** 31, 2 ** 32 - 1])


@st.composite
def oas_rep(draw):
    t = draw(st.sampled_from([None, None, None, 1, 2, 3, 4, 5, 6, 7, 8, 9, 10, 11]))
    if t is None:
        return None
    n = draw(st.integers(2, 4))
    sp = st.sampled_from([0, 1, 5, 30, 127, 128, 1000])
    gd = st.tuples(st.sampled_from([0, 3, -3, 40, -40, 129, -1000]), st.sampled_from([0, 3, -3, 40, 17, -129]))
    if t == 1:
        return {"t": 1, "nx": n, "ny": draw(st.integers(2, 3)), "dx": draw(sp), "dy": draw(sp)}
    if t == 2:
        return {"t": 2, "nx": n, "dx": draw(sp)}
    if t == 3:
        return {"t": 3, "ny": n, "dy": draw(sp)}
    if t in (4, 6):
        return {"t": t, "spaces": [draw(sp) for _ in range(n - 1)]}
    if t in (5, 7):
        return {"t": t, "grid": draw(st.sampled_from([1, 5, 10])), "spaces": [draw(sp) for _ in range(n - 1)]}
    if t == 8:
        return {"t": 8, "nn": n, "nm": draw(st.integers(2, 3)), "n": list(draw(gd)), "m": list(draw(gd))}
    if t == 9:
        return {"t": 9, "nn": n, "n": list(draw(gd))}
    if t == 10:
        return {"t": 10, "disp": [list(draw(gd)) for _ in range(n - 1)]}
    return {"t": 11, "grid": draw(st.sampled_from([1, 4, 25])), "disp": [list(draw(gd)) for _ in range(n - 1)]}


@st.composite
def oas_props(draw):
    out = []
    for _ in range(draw(st.sampled_from([0, 0, 0, 1, 1, 2, 3]))):
        if out and draw(st.integers(0, 3)) == 0:
            out.append(dict(out[-1]))        # identical property: the repeat record and value-list reuse become possible
            continue
        name = draw(st.sampled_from(["P", "prop_a", "S_GDS_PROPERTY", "x" * 20, "A1", "prop_a", "Q"]))
        vals = [draw(prop_c02.oas_value()) for _ in range(draw(st.sampled_from([0, 1, 1, 2, 3, 14, 15, 16])))]
        vals = [[v[0], v[1] if v[0] != "r" else float(v[1])] for v in vals]
        if name == "S_GDS_PROPERTY":
            vals = [["u", draw(st.sampled_from([0, 1, 65535]))], ["s", (draw(st.text(alphabet="abc XYZ09", min_size=1, max_size=5)).encode("ascii") + b"\0").hex()]]
        out.append({"name": name, "values": vals, "std": name.startswith("S_")})
    return out


@st.composite
def point_list(draw, closed):
    style = draw(st.sampled_from(["manhattan", "manhattan", "octangular", "general"]))
    n = draw(st.integers(2, 6))
    pts = []
    x = y = 0
    if style == "manhattan":
        horiz = draw(st.booleans())
        for i in range(n if not closed else (n // 2) * 2 + 1):
            d = draw(st.sampled_from([1, 3, 10, -4, 64, -200, 1000]))
            if horiz:
                x += d
            else:
                y += d
            horiz = not horiz
            pts.append([x, y])
        if closed:
            # closing vertex so that the last two edges alternate as well (the implicit forms become admissible)
            if horiz:
                pts.append([0, y])
            else:
                pts.append([x, 0])
            if pts[-1] == pts[-2] or pts[-1] == [0, 0]:
                pts[-1] = [pts[-1][0] + 1, pts[-1][1] + 1]
    elif style == "octangular":
        for _ in range(n):
            d = draw(st.sampled_from([1, 5, 40, 129]))
            dx, dy = draw(st.sampled_from([(1, 0), (0, 1), (-1, 0), (0, -1), (1, 1), (-1, 1), (-1, -1), (1, -1)]))
            x += dx * d
            y += dy * d
            pts.append([x, y])
    else:
        for _ in range(n):
            x += draw(st.sampled_from([1, -7, 30, 127, -128, 1000]))
            y += draw(st.sampled_from([0, 2, -9, 64, -65, 333]))
            pts.append([x, y])
    # no repeated vertices (a polygon must not return to its start, a path must not stand still)
    clean = []
    for q in pts:
        if q != [0, 0] and (not clean or q != clean[-1]) and (not closed or q not in clean):
            clean.append(q)
    if len(clean) < (2 if closed else 1):
        clean = [[3, 0], [3, 4]]
    return clean


@st.composite
def element(draw, cellnames):
    k = draw(st.sampled_from(["rect", "rect", "poly", "poly", "path", "trap", "ctrap", "ctrap", "circle", "text", "place"]))
    e = {"k": k, "x": draw(pos), "y": draw(pos), "rep": draw(oas_rep()), "props": draw(oas_props())}
    if k not in ("place",):
        e["layer"], e["dt"] = draw(tagv), draw(tagv)
    if k == "rect":
        e["w"] = draw(size)
        e["h"] = draw(st.one_of(st.just(e["w"]), size))
    elif k == "poly":
        e["pts"] = draw(point_list(True))
    elif k == "path":
        e["hw"] = draw(st.sampled_from([0, 1, 5, 64, 1000]))
        e["ext"] = [[draw(st.sampled_from(["flush", "half", "explicit"])), draw(st.sampled_from([0, 3, -2, 64, 1000]))] for _ in range(2)]
        e["pts"] = draw(point_list(False))
    elif k == "trap":
        e["w"], e["h"] = draw(st.sampled_from([10, 64, 1000])), draw(st.sampled_from([10, 64, 1000]))
        e["vert"] = draw(st.booleans())
        lim = e["h"] if e["vert"] else e["w"]
        e["da"] = draw(st.sampled_from([0, 0, 3, -3, lim // 3, -(lim // 3)]))
        e["db"] = draw(st.sampled_from([0, 0, 2, -2, lim // 3, -(lim // 3)]))
    elif k == "ctrap":
        e["type"] = draw(st.integers(0, 25))
        a, b = draw(st.sampled_from([3, 10, 64, 500])), draw(st.sampled_from([1, 2, 7, 30]))
        t = e["type"]
        # dimensions for which the figure is a proper polygon
        if t in (0, 1, 2, 3, 6, 7):
            e["w"], e["h"] = a + b, b
        elif t in (4, 5):
            e["w"], e["h"] = a + 2 * b, b
        elif t in (8, 9, 10, 11, 14, 15):
            e["w"], e["h"] = b, a + b
        elif t in (12, 13):
            e["w"], e["h"] = b, a + 2 * b
        elif t in orf.CTRAP_NO_H:
            e["w"], e["h"] = a, 0
        elif t in orf.CTRAP_NO_W:
            e["w"], e["h"] = 0, a
        else:
            e["w"], e["h"] = a, b
    elif k == "circle":
        e["r"] = draw(st.sampled_from([1, 5, 64, 1000, 20000]))
    elif k == "text":
        e["string"] = draw(st.sampled_from(["A", "label one", "x" * 30, "T2", "A"]))
    else:
        e["cell"] = draw(st.sampled_from(cellnames + ["EXTERNAL"]))
        e["flip"] = draw(st.booleans())
        e["mag"] = draw(st.sampled_from([1, 1, 1, 2, 0.5, 0.25, 3.5, 1e-3]))
        e["angle"] = draw(st.sampled_from([0, 0, 90, 180, 270, 45, 30.5, -90, 360, 17.25, 1e-3]))
    return e


@st.composite
def reader_case(draw):
    n = draw(st.integers(1, 4))
    names = ["TOP", "c1", "cell_two", "Z" * 25][:n]
    cells = []
    for i in range(n):
        later = names[i + 1:]
        els = [draw(element(later if later else [])) for _ in range(draw(st.integers(0, 7)))]
        els = [e for e in els if not (e["k"] == "place" and not later and e["cell"] != "EXTERNAL")]
        cells.append({"name": names[i], "props": draw(oas_props()), "elements": els})
    unit = draw(st.sampled_from([1000, 1000, 1, 2000, 0.5, 100, 1e6]))
    return {"kind": "reader", "layout": {"unit": unit, "props": draw(oas_props()), "cells": cells}, "choices": draw(st.lists(st.integers(0, 65535), min_size=20, max_size=120))}


def conv_props(dumped):
    return om.dumped_props(dumped)


def check_reader(ctx, case):
    layout = case["layout"]
    data, used = orf.encode(layout, case["choices"])

    def fail(msg):
        raise Violation("reader: %s" % msg, case, None, None, ["<%d bytes> %s" % (len(data), data.hex())])
    # codec self-check: the strict decoder gives the layout back
    try:
        dec = orf.decode(data)
    except (orf.Bad, on_short()) as e:
        raise Violation("codec self-check: my own decoder rejects the encoder's output: %r" % (e,), case, None, None, [data.hex()])
    mine = orf.decoded_placements(dec)
    want = orf.denote(layout)
    for w in want:
        try:
            om.compare_expanded(w, *[list(x) for x in mine[w["name"]]], 1e-3, 0.0)
        except Mismatch as m:
            raise Violation("codec self-check: decode(encode(layout)) differs in cell %r: %s" % (w["name"], m), case, None, None, [data.hex()])
    path = ctx.path("a.oas")
    with open(path, "wb") as fh:
        fh.write(data)
    rtol_grid = 0.05        # tolerance handed to the reader (used for CIRCLE records), in grid units
    outs = ctx.run(["io read_oas R %s 0 %s" % (path, fl(rtol_grid / layout["unit"])), "dump lib R"], case)
    rd, d = outs[0], outs[1]["lib"]
    allowed = {0}
    if 32 in dec["records"]:
        allowed = {5}                  # UnsupportedRecord: the XELEMENT it contains is reported as ignored
    if any(e["k"] == "place" and not any(c["name"] == e["cell"] for c in layout["cells"]) for c in layout["cells"] for e in c["elements"]):
        allowed |= {4}                 # MissingReference: a placement of a cell the file does not define
    if rd["err"] not in allowed:
        fail("read_oas returned error code %d for a specification-conforming file (expected one of %s)" % (rd["err"], sorted(allowed)))
    g = d["precision"] / d["unit"]
    if abs(d["precision"] * layout["unit"] / 1e-6 - 1) > 1e-9:
        fail("precision %r for %r grid steps per micron" % (d["precision"], layout["unit"]))
    by = {bytes.fromhex(c["name"]).decode("latin-1"): c for c in d["cells"]}
    if sorted(by) != sorted(c["name"] for c in layout["cells"]):
        fail("cells %s, the file defines %s" % (sorted(by), sorted(c["name"] for c in layout["cells"])))
    rmax = max([e["r"] for c in layout["cells"] for e in c["elements"] if e["k"] == "circle"] + [0])
    for w in want:
        got = by[w["name"]]
        try:
            polys, paths, labels, refs = om.expand_got(got, g, strict=True)
            om.compare_expanded(w, polys, paths, labels, refs, 0.002 * rmax + 1e-3 if rmax else 0.0, rtol_grid)
        except Mismatch as m:
            fail("cell %r: %s [choices used: %s]" % (w["name"], m, sorted(used)))
        if not om.props_same(w["props"], conv_props(got["props"])):
            fail("cell %r properties %s, the file gives %s" % (w["name"], conv_props(got["props"]), w["props"]))
    fp = [(p["name"], [(t, v) for t, v in p["values"]]) for p in layout.get("props", [])]
    if not om.props_same(fp, conv_props(d["props"])):
        fail("file-level properties %s, the file gives %s" % (conv_props(d["props"]), fp))
    reuse = any(k.endswith("_modal") or k.endswith("_reuse") or k == "property_repeat_record" for k in used)
    special = any(k in used for k in ("relative_position", "cblock", "placement_by_reference", "text_by_reference", "propname_reference", "cell_by_reference")) or \
        any(e["k"] == "ctrap" for c in layout["cells"] for e in c["elements"])
    labels = ["reader"] + ["choice_" + k for k in used] + ["record_" + e["k"] for c in layout["cells"] for e in c["elements"]] + \
        ["rep_type_%d" % e["rep"]["t"] for c in layout["cells"] for e in c["elements"] if e.get("rep")] + \
        ["ctrapezoid_type_%d" % e["type"] for c in layout["cells"] for e in c["elements"] if e["k"] == "ctrap"]
    ctx.stats.note(case, reuse and special, sorted(set(labels)))


def on_short():
    import oasnum
    return oasnum.Short


def bytes_needed(v):
    return max(1, (abs(int(v)).bit_length() + 7) // 8)


def check_writer(ctx, case, ignore_known=False):
    lib = case["lib"]
    lines, qindex = lg.build_script(lib, "L")
    nq = len(qindex)
    path = ctx.path("b.oas")
    flags, level, ctol = case["flags"], case["level"], case["circle_tol"]
    lines.append("io write_oas L %s %s %d %d" % (path, fl(ctol), level, flags))
    ncell = [i for i, c in enumerate(lib["cells"]) if not c.get("outside")]
    for i in ncell:
        lines.append("hier bbox L.c%d -" % i)
    lines.append("hier top_level L")
    outs = ctx.run(lines, case)
    queries = {qindex[i]: outs[i] for i in range(nq)}
    for q in queries.values():
        errs = [c["err"] for c in q["centers"]] if "centers" in q else [q["err"]]
        if any(e != 0 for e in errs):
            ctx.stats.note(case, False, ["path_outline_error"])
            return
    w = outs[nq]

    def fail(msg):
        raise Violation("writer (flags 0x%02x, level %d, circle tolerance %g): %s" % (flags, level, ctol, msg), case, None, None, lines)
    if w["err"] not in WARNINGS:
        fail("write_oas returned error %d" % w["err"])
    data = open(path, "rb").read()
    try:
        dec = orf.decode(data)
    except orf.Bad as e:
        fail("the strict decoder rejects the file: %s" % e)
    except on_short():
        fail("the file ends inside a record")
    ncirc = sum(1 for c in dec["cells"] for e in c["elements"] if e.get("k") == "circle")
    if ncirc:
        ctx.stats.count("writer_files_with_circle_records")
        ctx.stats.count("writer_circle_records", ncirc)
    g_in = lib["precision"] / lib["unit"]
    want_unit = 1e-6 / lib["precision"]
    if abs(float(dec["unit"]) / want_unit - 1) > 1e-12:
        fail("START unit %r grid steps per micron, the library has %r" % (float(dec["unit"]), want_unit))
    exp = om.expected(lib, queries)
    got = orf.decoded_placements(dec)
    if sorted(got) != sorted(e["name"] for e in exp):
        fail("cells in the file %s, in the library %s" % (sorted(got), sorted(e["name"] for e in exp)))
    for e in exp:
        try:
            polys, paths, labels, refs = got[e["name"]]
            rmax = max([el["r"] for c in dec["cells"] if c["name"] == e["name"] for el in c["elements"] if el["k"] == "circle"] + [0])
            # (a decoded CIRCLE is rendered as a 64-gon: sagitta 0.12 % of the radius)
            om.compare_expanded(e, list(polys), list(paths), list(labels), list(refs), ctol / g_in, 0.002 * rmax + 1.0)
        except Mismatch as m:
            fail("cell %r: %s" % (e["name"], m))
    # ---- the file tells the truth
    end = dec["end"]
    if end["length"] != 256:
        fail("END record is %d bytes long" % end["length"])
    want_scheme = 1 if flags & 0x40 else (2 if flags & 0x80 else 0)
    if end["scheme"] != want_scheme:
        fail("validation scheme %d, the flags ask for %d" % (end["scheme"], want_scheme))
    if want_scheme == 1 and end["signature"] != (zlib.crc32(data[:-4]) & 0xFFFFFFFF):
        fail("CRC32 signature %d, the bytes give %d" % (end["signature"], zlib.crc32(data[:-4]) & 0xFFFFFFFF))
    if want_scheme == 2 and end["signature"] != (sum(data[:-4]) & 0xFFFFFFFF):
        fail("checksum signature %d, the bytes give %d" % (end["signature"], sum(data[:-4]) & 0xFFFFFFFF))
    for k, base in enumerate((3, 5, 7, 9)):
        flag, off = end["offsets"][k]
        posn = dec["positions"][base]
        what = ["cellname", "textstring", "propname", "propstring"][k]
        if posn:
            if off != min(posn):
                fail("%s table offset %d, its first record is at %d" % (what, off, min(posn)))
        elif off != 0 and dec["records"].get(base, 0) + dec["records"].get(base + 1, 0) == 0:
            fail("%s table offset %d although the file has no such record" % (what, off))
        if flag not in (0, 1):
            fail("%s table strict flag %d" % (what, flag))
    fileprops = {}
    for p in dec["props"]:
        fileprops.setdefault(p["name"], []).append(p["values"])
    std = []
    # top cells
    if flags & 0x02:
        got_tops = sorted(bytes.fromhex(v[0][1]).decode("latin-1") for v in fileprops.get("S_TOP_CELL", []))
        refd = set()
        for c in lib["cells"]:
            if c.get("outside"):
                continue
            for r in c["refs"]:
                if r["kind"] in ("cell", "name"):
                    refd.add(lib["cells"][r["target"]]["name"])
        model_tops = sorted(c["name"] for c in lib["cells"] if not c.get("outside") and c["name"] not in refd)
        # (a cell placed only by name is not a top cell of the file: fixed defect, replays/C04/fixed_name_reference_top_cell.json)
        if got_tops != model_tops:
            fail("S_TOP_CELL lists %s, the top cells are %s" % (got_tops, model_tops))
        std.append("S_TOP_CELL")
    # maxima
    if flags & 0x01:
        strings = [len(s) for t in ("cellnames", "textstrings", "propnames", "propstrings") for s in dec[t].values()]
        maxpoly = max([len(orf.element_shape(e)[1]) for c in dec["cells"] for e in c["elements"] if e["k"] in ("poly",)] + [0])
        maxpath = max([len(e["pts"]) + 1 for c in dec["cells"] for e in c["elements"] if e["k"] == "path"] + [0])
        for name, measured in (("S_MAX_STRING_LENGTH", max(strings + [0])), ("S_POLYGON_MAX_VERTICES", maxpoly), ("S_PATH_MAX_VERTICES", maxpath)):
            if name not in fileprops:
                fail("%s missing although the maxima were requested" % name)
            v = fileprops[name][0][0][1]
            if v < measured:
                fail("%s = %d, the file contains %d" % (name, v, measured))
        for name in ("S_MAX_SIGNED_INTEGER_WIDTH", "S_MAX_UNSIGNED_INTEGER_WIDTH"):
            if name not in fileprops:
                fail("%s missing although the maxima were requested" % name)
        coords = [abs(v) for c in dec["cells"] for e in c["elements"] for v in (e["x"], e["y"])]
        if coords and fileprops["S_MAX_SIGNED_INTEGER_WIDTH"][0][0][1] < bytes_needed(2 * max(coords)):
            fail("S_MAX_SIGNED_INTEGER_WIDTH = %d bytes, a coordinate needs %d" % (fileprops["S_MAX_SIGNED_INTEGER_WIDTH"][0][0][1], bytes_needed(2 * max(coords))))
        std.append("S_MAX")
    # per-cell standard properties (on CELLNAME records)
    name_by_num = {k: v.decode("latin-1") for k, v in dec["cellnames"].items()}
    cprops = {name_by_num[k]: v for k, v in dec["cellname_props"].items() if k in name_by_num}
    if flags & 0x08:
        for c in dec["cells"]:
            ps = {p["name"]: p["values"] for p in cprops.get(c["name"], [])}
            if "S_CELL_OFFSET" not in ps:
                fail("cell %r has no S_CELL_OFFSET although cell offsets were requested" % c["name"])
            if c["offset"] is not None and ps["S_CELL_OFFSET"][0][1] != c["offset"]:
                fail("S_CELL_OFFSET of %r is %d, its CELL record starts at byte %d" % (c["name"], ps["S_CELL_OFFSET"][0][1], c["offset"]))
        std.append("S_CELL_OFFSET")
    if flags & 0x04:
        if fileprops.get("S_BOUNDING_BOXES_AVAILABLE", [[("u", None)]])[0][0][1] != 2:
            fail("S_BOUNDING_BOXES_AVAILABLE is %s, expected 2 (all cells)" % fileprops.get("S_BOUNDING_BOXES_AVAILABLE"))
        for k, i in enumerate(ncell):
            bb = outs[nq + 1 + k]
            name = lib["cells"][i]["name"]
            ps = {p["name"]: p["values"] for p in cprops.get(name, [])}
            if "S_BOUNDING_BOX" not in ps:
                fail("cell %r has no S_BOUNDING_BOX although bounding boxes were requested" % name)
            v = [x[1] for x in ps["S_BOUNDING_BOX"]]
            if len(v) != 5:
                fail("S_BOUNDING_BOX of %r has %d values" % (name, len(v)))
            lo, hi = bb["min"], bb["max"]
            empty = lo[0] > hi[0] or (lo == [0, 0] and hi == [0, 0] and not any(lib["cells"][i][kk] for kk in ("polys", "paths", "labels", "refs")))
            if not empty:
                want_box = [lo[0] / g_in, lo[1] / g_in, (hi[0] - lo[0]) / g_in, (hi[1] - lo[1]) / g_in]
                if any(abs(a - b) > 1.01 for a, b in zip(v[1:], want_box)):
                    fail("S_BOUNDING_BOX of %r is (x %d, y %d, w %d, h %d), the cell's box is (%.1f, %.1f, %.1f, %.1f) grid units" % ((name,) + tuple(v[1:]) + tuple(want_box)))
        std.append("S_BOUNDING_BOX")
    labels = ["writer", "flags_%s" % ("0" if flags == 0 else "nonzero"), "level_%d" % level] + ["checked_" + s for s in std] + (["cblocks"] if dec["cblocks"] else []) + \
        ["written_record_%d" % k for k in dec["records"]]
    ctx.stats.note(case, flags != 0, sorted(set(labels)))


def check(ctx, case, ignore_known=False):
    if case.get("kind") == "reader":
        return check_reader(ctx, case)
    return check_writer(ctx, case, ignore_known)


def run_worker(ctx):
    q = ctx.tier == "quick"
    vs = []
    v = ctx.hypothesis(check, reader_case(), ctx.share(2000 if q else 40000), "reader", shrink=not q)
    if v:
        vs.append(v)
    v = ctx.hypothesis(check, prop_c02.case_strategy(), ctx.share(1000 if q else 15000), "writer", shrink=not q)
    if v:
        vs.append(v)
    return vs


def replay(ctx, test, case, ignore_known=False):
    return check(ctx, case, ignore_known)
