"""Exact integer geometry used by the region oracles (C05, C12, C13, C01 fracture): winding numbers,
point-segment distances, decidable sample points, polygon generators.  All my own code; Python ints only."""
import math

from hypothesis import strategies as st


def winding(poly, px, py):
    """winding number of integer polygon about (px,py); the point must not lie on the boundary."""
    wn = 0
    n = len(poly)
    x0, y0 = poly[n - 1]
    for i in range(n):
        x1, y1 = poly[i]
        if y0 <= py:
            if y1 > py and (x1 - x0) * (py - y0) - (y1 - y0) * (px - x0) > 0:
                wn += 1
        elif y1 <= py and (x1 - x0) * (py - y0) - (y1 - y0) * (px - x0) < 0:
            wn -= 1
        x0, y0 = x1, y1
    return wn


def covers(polys, px, py):
    """does some polygon of the group have non-zero winding at the point"""
    for p in polys:
        if len(p) >= 3 and winding(p, px, py) != 0:
            return True
    return False


def seg_dist2_ge(px, py, ax, ay, bx, by, band2):
    """exact: squared distance from p to segment ab >= band2 (all integers)"""
    dx, dy = bx - ax, by - ay
    qx, qy = px - ax, py - ay
    l2 = dx * dx + dy * dy
    if l2 == 0:
        return qx * qx + qy * qy >= band2
    t = qx * dx + qy * dy
    if t <= 0:
        return qx * qx + qy * qy >= band2
    if t >= l2:
        rx, ry = px - bx, py - by
        return rx * rx + ry * ry >= band2
    c = qx * dy - qy * dx
    return c * c >= band2 * l2


def edges_of(polys):
    out = []
    for p in polys:
        n = len(p)
        for i in range(n):
            a = p[i]
            b = p[(i + 1) % n]
            out.append((a[0], a[1], b[0], b[1]))
    return out


def far_from_edges(px, py, edges, band2):
    for ax, ay, bx, by in edges:
        # cheap reject by bounding box first
        if px < min(ax, bx) - band2 and px < max(ax, bx) - band2:
            pass
        if not seg_dist2_ge(px, py, ax, ay, bx, by, band2):
            return False
    return True


def seg_dist(px, py, ax, ay, bx, by):
    """float distance point-segment (coordinates may be ints or floats)"""
    dx, dy = bx - ax, by - ay
    qx, qy = px - ax, py - ay
    l2 = dx * dx + dy * dy
    if l2 == 0:
        return math.hypot(qx, qy)
    t = (qx * dx + qy * dy) / l2
    t = 0.0 if t < 0 else 1.0 if t > 1 else t
    return math.hypot(qx - t * dx, qy - t * dy)


def area2(poly):
    """twice the signed area"""
    s = 0
    n = len(poly)
    for i in range(n):
        x0, y0 = poly[i]
        x1, y1 = poly[(i + 1) % n]
        s += x0 * y1 - x1 * y0
    return s


def perimeter(poly):
    n = len(poly)
    return sum(math.hypot(poly[i][0] - poly[(i + 1) % n][0], poly[i][1] - poly[(i + 1) % n][1]) for i in range(n))


def bbox(polys):
    xs = [p[0] for poly in polys for p in poly]
    ys = [p[1] for poly in polys for p in poly]
    if not xs:
        return None
    return min(xs), min(ys), max(xs), max(ys)


def candidate_samples(polys, reach=3, grid=6, extra_polys=()):
    """deliberately placed integer sample points: both sides of every edge midpoint, vertex neighbourhoods and a
    coarse grid over the bounding box (with a margin)."""
    pts = set()
    allp = list(polys) + list(extra_polys)
    for p in allp:
        n = len(p)
        for i in range(n):
            ax, ay = p[i]
            bx, by = p[(i + 1) % n]
            mx, my = (ax + bx) // 2, (ay + by) // 2
            dx, dy = bx - ax, by - ay
            l = math.hypot(dx, dy)
            if l > 0:
                nx, ny = -dy / l, dx / l
                for k in (reach, 2 * reach + 1, -reach, -2 * reach - 1):
                    pts.add((int(round(mx + nx * k)), int(round(my + ny * k))))
            for sx, sy in ((reach, reach), (-reach, reach), (reach, -reach), (-reach, -reach)):
                pts.add((ax + sx, ay + sy))
    bb = bbox(allp)
    if bb:
        x0, y0, x1, y1 = bb
        w, h = max(x1 - x0, 1), max(y1 - y0, 1)
        for i in range(-1, grid + 1):
            for j in range(-1, grid + 1):
                pts.add((x0 + (2 * i + 1) * w // (2 * grid), y0 + (2 * j + 1) * h // (2 * grid)))
    return sorted(pts)


def decidable(polys, cands, band=2):
    edges = edges_of(polys)
    b2 = band * band
    return [(x, y) for x, y in cands if far_from_edges(x, y, edges, b2)]


# ------------------------------------------------------------------------------- generators
def _dedupe(poly):
    out = []
    for p in poly:
        if not out or out[-1] != p:
            out.append(p)
    if len(out) > 1 and out[0] == out[-1]:
        out.pop()
    return out


def segments_cross(a, b, c, d):
    """proper or improper intersection of closed segments ab and cd (integers)"""
    def orient(p, q, r):
        v = (q[0] - p[0]) * (r[1] - p[1]) - (q[1] - p[1]) * (r[0] - p[0])
        return (v > 0) - (v < 0)

    def on(p, q, r):
        return min(p[0], q[0]) <= r[0] <= max(p[0], q[0]) and min(p[1], q[1]) <= r[1] <= max(p[1], q[1])
    o1, o2, o3, o4 = orient(a, b, c), orient(a, b, d), orient(c, d, a), orient(c, d, b)
    if o1 != o2 and o3 != o4:
        return True
    if o1 == 0 and on(a, b, c):
        return True
    if o2 == 0 and on(a, b, d):
        return True
    if o3 == 0 and on(c, d, a):
        return True
    if o4 == 0 and on(c, d, b):
        return True
    return False


def is_simple(poly):
    n = len(poly)
    if n < 3 or area2(poly) == 0:
        return False
    for i in range(n):
        a, b = poly[i], poly[(i + 1) % n]
        if a == b:
            return False
        for j in range(i + 1, n):
            c, d = poly[j], poly[(j + 1) % n]
            if j == i + 1 or (i == 0 and j == n - 1):
                # adjacent edges share one endpoint; they must not overlap collinearly
                shared = b if j == i + 1 else a
                other1 = a if j == i + 1 else b
                other2 = d if j == i + 1 else c
                v1 = (other1[0] - shared[0], other1[1] - shared[1])
                v2 = (other2[0] - shared[0], other2[1] - shared[1])
                if v1[0] * v2[1] - v1[1] * v2[0] == 0 and v1[0] * v2[0] + v1[1] * v2[1] > 0:
                    return False
                continue
            if segments_cross(a, b, c, d):
                return False
    return True


@st.composite
def simple_polygon(draw, size=64, snap=None, center=None):
    """a simple polygon with integer vertices, |coords - center| <= size; several families."""
    fam = draw(st.sampled_from(["star", "star", "hist", "rect", "tri", "hull", "comb"]))
    if snap is None:
        snap = draw(st.sampled_from([1, 1, 2, 4, 8]))
    cx, cy = center if center is not None else (draw(st.integers(-size, size)), draw(st.integers(-size, size)))

    def sn(v):
        return int(round(v / snap)) * snap

    poly = None
    if fam == "star":
        n = draw(st.integers(3, 12))
        base = draw(st.floats(0, 6.28))
        angs = sorted(base + (i + draw(st.floats(0.05, 0.95))) * 6.283185307 / n for i in range(n))
        poly = []
        for a in angs:
            r = draw(st.integers(max(4, size // 8), size))
            poly.append((sn(cx + r * math.cos(a)), sn(cy + r * math.sin(a))))
    elif fam == "hist":
        k = draw(st.integers(1, 6))
        xs = sorted(set(sn(cx + draw(st.integers(-size, size))) for _ in range(k + 1)))
        if len(xs) < 2:
            xs = [sn(cx), sn(cx) + max(snap, 4)]
        base_y = sn(cy - draw(st.integers(0, size)))
        poly = [(xs[0], base_y)]
        top = []
        for i in range(len(xs) - 1):
            h = base_y + max(snap, sn(draw(st.integers(2, size))))
            top.append((xs[i], h))
            top.append((xs[i + 1], h))
        poly = [(xs[0], base_y), (xs[-1], base_y)] + top[::-1]
    elif fam == "rect":
        w = max(snap, sn(draw(st.integers(2, size))))
        h = max(snap, sn(draw(st.integers(2, size))))
        x0, y0 = sn(cx), sn(cy)
        poly = [(x0, y0), (x0 + w, y0), (x0 + w, y0 + h), (x0, y0 + h)]
    elif fam == "tri":
        poly = [(sn(cx + draw(st.integers(-size, size))), sn(cy + draw(st.integers(-size, size)))) for _ in range(3)]
    elif fam == "comb":
        teeth = draw(st.integers(1, 5))
        tw = max(snap, sn(draw(st.integers(2, max(3, size // 4)))))
        th = max(snap, sn(draw(st.integers(4, size))))
        bh = max(snap, sn(draw(st.integers(2, max(3, size // 4)))))
        x0, y0 = sn(cx), sn(cy)
        poly = [(x0, y0), (x0 + 2 * teeth * tw - tw + 0, y0)]
        x = x0 + 2 * teeth * tw - tw
        up = []
        for t in range(teeth):
            xr = x0 + (2 * (teeth - t) - 1) * tw
            xl = xr - tw
            up += [(xr, y0 + bh + th), (xl, y0 + bh + th)]
            if t != teeth - 1:
                up += [(xl, y0 + bh), (xl - tw, y0 + bh)]
        poly = [(x0, y0), (x, y0)] + up
    else:
        pts = [(sn(cx + draw(st.integers(-size, size))), sn(cy + draw(st.integers(-size, size)))) for _ in range(draw(st.integers(3, 9)))]
        poly = convex_hull(pts)
    poly = _dedupe(poly)
    if not is_simple(poly):
        # fall back to a small rectangle (always simple); keeps the generator constructive
        x0, y0 = sn(cx), sn(cy)
        s = max(snap, 4)
        poly = [(x0, y0), (x0 + 2 * s, y0), (x0 + 2 * s, y0 + s), (x0, y0 + s)]
    if draw(st.booleans()):
        poly = poly[::-1]
    return [list(p) for p in poly]


def convex_hull(pts):
    pts = sorted(set(pts))
    if len(pts) <= 2:
        return pts

    def cross(o, a, b):
        return (a[0] - o[0]) * (b[1] - o[1]) - (a[1] - o[1]) * (b[0] - o[0])
    lo = []
    for p in pts:
        while len(lo) >= 2 and cross(lo[-2], lo[-1], p) <= 0:
            lo.pop()
        lo.append(p)
    up = []
    for p in reversed(pts):
        while len(up) >= 2 and cross(up[-2], up[-1], p) <= 0:
            up.pop()
        up.append(p)
    return lo[:-1] + up[:-1]


def to_int_polys(dumped, scaling):
    """driver polygons (user-unit doubles) -> integer polygons in scaled units; also returns the worst rounding residue"""
    out = []
    worst = 0.0
    for p in dumped:
        q = []
        for x, y in p["pts"]:
            sx, sy = x * scaling, y * scaling
            ix, iy = int(round(sx)), int(round(sy))
            worst = max(worst, abs(sx - ix), abs(sy - iy))
            q.append((ix, iy))
        out.append(q)
    return out, worst
