#!/usr/bin/env python3
"""./check <id> [--tier quick|thorough] [--replay file] [--workers n] [--seed n]"""
import importlib
import os
import sys

HERE = os.path.dirname(os.path.abspath(__file__))
sys.path.insert(0, HERE)

import common  # noqa: E402


def main():
    args = sys.argv[1:]
    if not args:
        print(__doc__)
        return 2
    prop = args.pop(0).upper()
    tier = os.environ.get("VERIF_TIER", "quick")
    seed = int(os.environ.get("VERIF_SEED", "0") or 0)
    replay = None
    workers = None
    while args:
        a = args.pop(0)
        if a == "--tier":
            tier = args.pop(0)
        elif a == "--replay":
            replay = args.pop(0)
        elif a == "--workers":
            workers = int(args.pop(0))
        elif a == "--seed":
            seed = int(args.pop(0))
    if tier not in ("quick", "thorough"):
        tier = "quick"
    modname = "prop_" + prop.lower()
    mod = importlib.import_module(modname)
    return common.run_check(modname, prop, mod.LEVEL, mod.RULE, mod.ASSUMPTIONS, tier, seed, replay, workers)


if __name__ == "__main__":
    sys.exit(main())
