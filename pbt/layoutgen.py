"""Abstract layout model: generators (Hypothesis), driver build scripts, dump normalisation.

All lengths in the abstract model are in *grid units* (1 grid unit = precision/unit user units), as floats that may carry
a small jitter (|fraction| <= 0.3) so that "the original rounded to the grid" never rests on a tie.  A library is plain
JSON-able data.
"""
import math

from hypothesis import strategies as st

from common import fl, hx
import repgen

ANCHORS = [0, 1, 2, 4, 5, 6, 8, 9, 10]


def rnd(v):
    """round half away from zero (what lround does); inputs never sit on a tie by construction"""
    return int(math.floor(abs(v) + 0.5)) * (1 if v >= 0 else -1)


# ------------------------------------------------------------------------------------------------ strategies
def coord(size, jitter=True):
    base = st.integers(-size, size)
    if not jitter:
        return base.map(float)
    return st.tuples(base, st.sampled_from([0.0, 0.0, 0.0, 0.1, -0.2, 0.3, -0.3, 0.25])).map(lambda t: t[0] + t[1])


def names():
    alpha = st.text(alphabet="ABCDEFGHIJKLMNOPQRSTUVWXYZabcdefghijklmnopqrstuvwxyz0123456789_$", min_size=1, max_size=12)
    return st.one_of(alpha, alpha, st.integers(1, 40).map(lambda n: ("N%d_" % n + "x" * 40)[:n]))


def gds_props():
    val = st.text(alphabet="abcdefghijklmnopqrstuvwxyz ABC012!#%", min_size=1, max_size=9)
    return st.lists(st.tuples(st.sampled_from([0, 1, 2, 7, 255, 32767, 40000, 65535]), val), max_size=3,
                    unique_by=lambda t: t[0]).map(lambda l: [list(t) for t in l])


tag_st = st.tuples(st.sampled_from([0, 1, 2, 3, 10, 255, 32767]), st.sampled_from([0, 1, 2, 7, 32767])).map(list)


@st.composite
def grid_rep(draw, size=200, on_grid=None, kinds=None, counts=None):
    """repetition with vectors in grid units; on_grid True -> integer vectors"""
    if on_grid is None:
        on_grid = draw(st.sampled_from([True, True, False]))
    c = coord(size, jitter=not on_grid)
    return draw(repgen.repetition(coord=c, counts=counts, kinds=kinds, max_explicit=5))


@st.composite
def polygon(draw, size=1000, origin=(0, 0), props=gds_props, nmax=12, allow_rep=True, rep_st=None):
    import geomkit as gk
    fam = draw(st.sampled_from(["simple", "simple", "rect", "tri"]))
    if fam == "rect":
        x0, y0 = draw(st.integers(-size, size)), draw(st.integers(-size, size))
        w, h = draw(st.integers(1, size)), draw(st.integers(1, size))
        pts = [[x0, y0], [x0 + w, y0], [x0 + w, y0 + h], [x0, y0 + h]]
        start = draw(st.integers(0, 3))
        pts = pts[start:] + pts[:start]
        if draw(st.booleans()):
            pts = pts[::-1]
    elif fam == "tri":
        pts = None
        for _ in range(3):
            cand = [[draw(st.integers(-size, size)), draw(st.integers(-size, size))] for _ in range(3)]
            if gk.area2([tuple(p) for p in cand]) != 0:
                pts = cand
                break
        if pts is None:
            pts = [[0, 0], [size, 0], [0, size]]
    else:
        pts = draw(gk.simple_polygon(size=size, center=(draw(st.integers(-size, size)), draw(st.integers(-size, size)))))
    jit = draw(st.sampled_from([0.0, 0.0, 0.2, -0.3, 0.1]))
    pts = [[p[0] + origin[0] + jit, p[1] + origin[1] - jit] for p in pts]
    rep = draw(st.one_of(st.none(), st.none(), rep_st if rep_st is not None else grid_rep())) if allow_rep else None
    return {"tag": draw(tag_st), "pts": pts, "rep": rep, "props": draw(props())}


@st.composite
def label(draw, size=1000, origin=(0, 0), props=gds_props, full=True, rep_st=None):
    text = draw(st.text(alphabet="abcdefghijklmnopqrstuvwxyzABC XYZ0123456789.,-_", min_size=1, max_size=15))
    d = {"text": text, "tag": draw(tag_st), "origin": [draw(coord(size)) + origin[0], draw(coord(size)) + origin[1]],
         "anchor": draw(st.sampled_from(ANCHORS)) if full else 0,
         "rot": draw(st.sampled_from([0.0, 0.0, math.pi / 2, math.pi, -math.pi / 2, 0.3, 1.0, -2.5, 7.0])) if full else 0.0,
         "mag": draw(st.sampled_from([1.0, 1.0, 2.0, 0.5, 1.0 / 3, 1e-3, 17.25])) if full else 1.0,
         "xr": draw(st.booleans()) if full else False,
         "rep": draw(st.one_of(st.none(), st.none(), rep_st if rep_st is not None else grid_rep())), "props": draw(props())}
    return d


END_TYPES = ["flush", "round", "halfwidth", "extended"]


@st.composite
def simple_flexpath(draw, size=1000, origin=(0, 0), props=gds_props, nonneg_width=False, rep_st=None):
    """polyline spine, constant widths, zero offsets: the centre line is the spine itself"""
    n = draw(st.integers(2, 6))
    pts = []
    x, y = draw(st.integers(-size, size)) + origin[0], draw(st.integers(-size, size)) + origin[1]
    pts.append([float(x), float(y)])
    for _ in range(n - 1):
        dx, dy = draw(st.integers(-200, 200)), draw(st.integers(-200, 200))
        if dx == 0 and dy == 0:
            dx = 7
        x, y = x + dx, y + dy
        pts.append([float(x), float(y)])
    nel = draw(st.integers(1, 3))
    els = []
    for _ in range(nel):
        end = draw(st.sampled_from(END_TYPES))
        els.append({"tag": draw(tag_st), "w": float(draw(st.sampled_from([0, 1, 2, 3, 10, 50, 51]))), "off": 0.0, "end": end,
                    "ext": [float(draw(st.integers(-20, 40))), float(draw(st.integers(-20, 40)))] if end == "extended" else [0.0, 0.0],
                    "join": draw(st.sampled_from([0, 1, 2, 3]))})
    return {"kind": "fp", "simple": True, "scale_width": True if nonneg_width else draw(st.booleans()), "tol": 0.01, "spine": pts,
            "els": els, "rep": draw(st.one_of(st.none(), st.none(), rep_st if rep_st is not None else grid_rep())), "props": draw(props())}


@st.composite
def outline_flexpath(draw, size=1000, origin=(0, 0), props=gds_props, rep_st=None):
    """non-simple flexpath (saved as polygons): spine polyline with comfortable segment lengths, 1-2 elements with offsets"""
    n = draw(st.integers(2, 4))
    x, y = draw(st.integers(-size, size)) + origin[0], draw(st.integers(-size, size)) + origin[1]
    pts = [[float(x), float(y)]]
    ang = draw(st.floats(0, 6.28))
    for _ in range(n - 1):
        ang += draw(st.sampled_from([-1.2, -0.5, 0.0, 0.4, 1.0, 1.5]))
        L = draw(st.integers(150, 400))
        x, y = x + int(L * math.cos(ang)), y + int(L * math.sin(ang))
        pts.append([float(x), float(y)])
    nel = draw(st.integers(1, 2))
    els = []
    for i in range(nel):
        els.append({"tag": draw(tag_st), "w": float(draw(st.sampled_from([4, 10, 20]))), "off": float((i * 2 - (nel - 1)) * 20),
                    "end": draw(st.sampled_from(END_TYPES)), "ext": [5.0, 8.0], "join": draw(st.sampled_from([0, 1, 2, 3]))})
    for e in els:
        if e["end"] != "extended":
            e["ext"] = [0.0, 0.0]
    return {"kind": "fp", "simple": False, "scale_width": draw(st.booleans()), "tol": 0.01, "spine": pts, "els": els,
            "rep": draw(st.one_of(st.none(), st.none(), rep_st if rep_st is not None else grid_rep())), "props": draw(props())}


@st.composite
def robustpath(draw, size=1000, origin=(0, 0), props=gds_props, simple=None, nonneg_width=False, rep_st=None):
    x, y = draw(st.integers(-size, size)) + origin[0], draw(st.integers(-size, size)) + origin[1]
    nel = draw(st.integers(1, 2))
    els = []
    for i in range(nel):
        end = draw(st.sampled_from(END_TYPES))
        els.append({"tag": draw(tag_st), "w": float(draw(st.sampled_from([2, 10, 20]))),
                    "off": float((i * 2 - (nel - 1)) * 15) if nel > 1 else float(draw(st.sampled_from([0, 0, 12, -9]))),
                    "end": end, "ext": [4.0, 6.0] if end == "extended" else [0.0, 0.0]})
    ops = []
    for _ in range(draw(st.integers(1, 3))):
        k = draw(st.sampled_from(["seg", "seg", "arc", "cubic"]))
        if k == "seg":
            ops.append(["seg", float(draw(st.integers(100, 300))), float(draw(st.integers(-100, 100)))])
        elif k == "arc":
            # start angles / sweeps for which the arc leaves heading east-ish and ends heading at most ~100 degrees from east:
            # a following segment (always heading right) then never doubles back onto the arc (degenerate self-overlap,
            # where the edge intersection search of the outline is ill-conditioned)
            ops.append(["arc", float(draw(st.integers(80, 200))), draw(st.sampled_from([-1.5, -1.0, -1.5])), draw(st.sampled_from([0.7, 1.2]))])
        else:
            ops.append(["cubic", 100.0, 40.0, 200.0, -40.0, 300.0, 0.0])
    if simple is None:
        simple = draw(st.booleans())
    return {"kind": "rp", "simple": simple, "scale_width": True if nonneg_width else draw(st.booleans()), "tol": 0.01, "start": [float(x), float(y)],
            "els": els, "ops": ops, "rep": draw(st.one_of(st.none(), st.none(), rep_st if rep_st is not None else grid_rep())), "props": draw(props())}


def rot_strategy():
    return st.sampled_from([0.0, 0.0, math.pi / 2, math.pi, -math.pi / 2, 3 * math.pi / 2, 0.3, 1.0, -2.5, 7.0, math.pi / 4])


@st.composite
def reference(draw, ntargets, size=1000, props=gds_props, allow_name=True, allow_outside=False, rep_kinds=None, rep_st=None, small_counts=False):
    """target: index of a later cell, or a dangling name"""
    kind = draw(st.sampled_from(["cell"] * 5 + (["name"] if allow_name else []) + (["dangling"] if allow_name else [])))
    if ntargets == 0:
        kind = "dangling" if allow_name else None
        if kind is None:
            return None
    rot = draw(rot_strategy())
    mag = draw(st.sampled_from([1.0, 1.0, 2.0, 0.5, 1.0 / 3, 1e-3]))
    xr = draw(st.booleans())
    origin = [draw(coord(size)), draw(coord(size))]
    rep = None
    mode = draw(st.sampled_from(["none", "none", "aligned", "aligned_swapped", "free"]))
    if mode in ("aligned", "aligned_swapped"):
        cs_ = [1, 2, 3] if small_counts else [1, 2, 3, 7]
        cols, rows = draw(st.sampled_from(cs_)), draw(st.sampled_from(cs_))
        dx, dy = draw(st.integers(-300, 300)), draw(st.integers(-300, 300))
        ca, sa = math.cos(rot), math.sin(rot)
        ax = (dx * ca, dx * sa)
        ay = (-dy * sa, dy * ca)
        quarter = abs(rot / (math.pi / 2) - round(rot / (math.pi / 2))) < 1e-12
        if quarter:
            ax = (float(round(ax[0])), float(round(ax[1])))
            ay = (float(round(ay[0])), float(round(ay[1])))
        if rot == 0.0 and draw(st.booleans()):
            rep = {"type": "rect", "cols": cols, "rows": rows, "spacing": [float(dx), float(dy)]}
        elif mode == "aligned":
            rep = {"type": "regular", "cols": cols, "rows": rows, "v1": list(ax), "v2": list(ay)}
        else:
            rep = {"type": "regular", "cols": cols, "rows": rows, "v1": list(ay), "v2": list(ax)}
    elif mode == "free":
        rep = draw(rep_st if rep_st is not None else grid_rep(kinds=rep_kinds))
    d = {"kind": kind, "origin": origin, "rot": rot, "mag": mag, "xr": xr, "rep": rep, "props": draw(props())}
    if kind == "cell":
        d["target"] = draw(st.integers(0, ntargets - 1))
    elif kind == "name":
        d["target"] = draw(st.integers(0, ntargets - 1))
    else:
        d["target"] = "MISSING_" + draw(st.sampled_from(["A", "BB", "CCC"]))
    return d


@st.composite
def library(draw, ncells=(1, 5), size=1000, origin_mag=None, props=gds_props, path_kinds=("simple_fp", "outline_fp", "rp"),
            label_full=True, unit_choices=((1e-6, 1e-9), (1e-6, 1e-9), (1e-6, 5e-9), (1e-9, 1e-12), (1.0, 1e-3), (1e-3, 1e-6)),
            allow_name_refs=True, nonneg_width=False, elements=(0, 4), rep_kinds=None, rep_st=None, small_counts=False, npaths=(0, 2), nlabels=(0, 2),
            nrefs=(0, 3)):
    unit, prec = draw(st.sampled_from(list(unit_choices)))
    n = draw(st.integers(*ncells))
    used = set()
    cells = []
    if origin_mag is None:
        origin_mag = draw(st.sampled_from([0, 0, 0, 1 << 15, 1 << 16, (1 << 31) - 5000]))
    for i in range(n):
        nm = draw(names())
        while nm in used:
            nm = nm + "_%d" % i
        used.add(nm)
        ox = origin_mag * draw(st.sampled_from([-1, 1])) if origin_mag else 0
        oy = origin_mag * draw(st.sampled_from([-1, 0, 1])) if origin_mag else 0
        csize = min(size, 2000)
        cell = {"name": nm, "polys": [], "paths": [], "labels": [], "refs": []}
        for _ in range(draw(st.integers(*elements))):
            cell["polys"].append(draw(polygon(size=csize, origin=(ox, oy), props=props, rep_st=rep_st)))
        for _ in range(draw(st.integers(*npaths))):
            k = draw(st.sampled_from(list(path_kinds)))
            if k == "simple_fp":
                cell["paths"].append(draw(simple_flexpath(size=csize, origin=(ox, oy), props=props, nonneg_width=nonneg_width, rep_st=rep_st)))
            elif k == "outline_fp":
                cell["paths"].append(draw(outline_flexpath(size=csize, origin=(ox, oy), props=props, rep_st=rep_st)))
            elif k == "rp":
                cell["paths"].append(draw(robustpath(size=csize, origin=(ox, oy), props=props, nonneg_width=nonneg_width, rep_st=rep_st)))
            elif k == "simple_rp":
                cell["paths"].append(draw(robustpath(size=csize, origin=(ox, oy), props=props, simple=True, nonneg_width=nonneg_width, rep_st=rep_st)))
        for _ in range(draw(st.integers(*nlabels))):
            cell["labels"].append(draw(label(size=csize, origin=(ox, oy), props=props, full=label_full, rep_st=rep_st)))
        cells.append(cell)
    # references: cell i may reference only cells j > i (acyclic by construction)
    for i, cell in enumerate(cells):
        for _ in range(draw(st.integers(*nrefs))):
            r = draw(reference(n - i - 1, size=min(size, 2000), props=props, allow_name=allow_name_refs, rep_kinds=rep_kinds, rep_st=rep_st,
                               small_counts=small_counts))
            if r is None:
                continue
            if r["kind"] in ("cell", "name"):
                r["target"] = i + 1 + r["target"]
            cell["refs"].append(r)
    return {"name": draw(st.sampled_from(["LIB", "library", "L", "odd"])), "unit": unit, "precision": prec, "cells": cells}


# ------------------------------------------------------------------------------------------------ driver script
def rep_spec(rep, g):
    if rep is None:
        return "none"
    t = rep["type"]
    if t == "rect":
        return "rect %d %d %s %s" % (rep["cols"], rep["rows"], fl(rep["spacing"][0] * g), fl(rep["spacing"][1] * g))
    if t == "regular":
        return "regular %d %d %s %s %s %s" % (rep["cols"], rep["rows"], fl(rep["v1"][0] * g), fl(rep["v1"][1] * g), fl(rep["v2"][0] * g), fl(rep["v2"][1] * g))
    if t == "explicit":
        return "explicit %d %s" % (len(rep["offsets"]), " ".join(fl(c * g) for o in rep["offsets"] for c in o))
    return "%s %d %s" % (t, len(rep["coords"]), " ".join(fl(c * g) for c in rep["coords"]))


END_CODE = {"flush": 0, "round": 1, "halfwidth": 2, "extended": 3}


def prop_lines(kind, eid, props):
    out = []
    for p in reversed(props):  # set_gds_property prepends: iterate reversed so that list order == model order
        if len(p) == 2 and isinstance(p[0], int):
            out.append("prop %s %s gds %d %s" % (kind, eid, p[0], hx(p[1])))
        else:  # generic OASIS property: [name, [[type, value], ...]]
            name, vals = p
            first = True
            for ty, v in reversed(vals):
                cn = 1 if first else 0
                first = False
                if ty == "u":
                    out.append("prop %s %s set_u %s %d %d" % (kind, eid, hx(name), v, cn))
                elif ty == "i":
                    out.append("prop %s %s set_i %s %d %d" % (kind, eid, hx(name), v, cn))
                elif ty == "r":
                    out.append("prop %s %s set_r %s %s %d" % (kind, eid, hx(name), float(v).hex(), cn))
                else:
                    out.append("prop %s %s set_b %s %s %d" % (kind, eid, hx(name), v if v else "-", cn))
    return out


def path_lines(pid, p, g):
    lines = []
    if p["kind"] == "fp":
        sp = p["spine"]
        els = " ".join("%s %s %d %d" % (fl(e["w"] * g), fl(e["off"] * g), e["tag"][0], e["tag"][1]) for e in p["els"])
        lines.append("fp new %s %s %s %d %s %d %d %s" % (pid, fl(sp[0][0] * g), fl(sp[0][1] * g), len(p["els"]), fl(p["tol"] * g),
                                                        1 if p["simple"] else 0, 1 if p["scale_width"] else 0, els))
        for i, e in enumerate(p["els"]):
            lines.append("fp elem %s %d %d %d %s %s %s" % (pid, i, e.get("join", 0), END_CODE[e["end"]], fl(e["ext"][0] * g), fl(e["ext"][1] * g),
                                                          ("1 " + fl(e["bend"] * g)) if e.get("bend") else "0 0"))
        lines.append("fp seg %s 0 %d %s - -" % (pid, len(sp) - 1, " ".join(fl(c * g) for q in sp[1:] for c in q)))
        kind = "fp"
    else:
        els = " ".join("%s %s %d %d" % (fl(e["w"] * g), fl(e["off"] * g), e["tag"][0], e["tag"][1]) for e in p["els"])
        lines.append("rp new %s %s %s %d %s 1000 %d %d %s" % (pid, fl(p["start"][0] * g), fl(p["start"][1] * g), len(p["els"]), fl(p["tol"] * g),
                                                             1 if p["simple"] else 0, 1 if p["scale_width"] else 0, els))
        for i, e in enumerate(p["els"]):
            lines.append("rp elem %s %d %d %s %s" % (pid, i, END_CODE[e["end"]], fl(e["ext"][0] * g), fl(e["ext"][1] * g)))
        for op in p["ops"]:
            if op[0] == "seg":
                lines.append("rp seg %s 1 %s %s - -" % (pid, fl(op[1] * g), fl(op[2] * g)))
            elif op[0] == "arc":
                lines.append("rp arc %s %s %s %s %s 0 - -" % (pid, fl(op[1] * g), fl(op[1] * g), fl(op[2]), fl(op[2] + op[3])))
            else:
                lines.append("rp cubic %s 1 %s - -" % (pid, " ".join(fl(c * g) for c in op[1:])))
        kind = "rp"
        if p.get("prescale"):
            # the path is scaled after construction (its width/offset scale factors and matrix are then not the identity)
            # (about its own start point, so that coordinates stay in range)
            lines.append("xf rp %s scale %s %s %s" % (pid, fl(p["prescale"]), fl(p["start"][0] * g), fl(p["start"][1] * g)))
    if p["rep"] is not None:
        lines.append("rep set %s %s %s" % (kind, pid, rep_spec(p["rep"], g)))
    lines += prop_lines(kind, pid, p["props"])
    return lines


def build_script(lib, lid="L", queries=True):
    """driver lines that build the library; returns (lines, index) where index lists the path handles whose
    centre lines / outlines are queried (in output order)"""
    g = lib["precision"] / lib["unit"]
    lines = ["lib new %s %s %s %s" % (lid, hx(lib["name"]), fl(lib["unit"]), fl(lib["precision"]))]
    qindex = []
    for ci, c in enumerate(lib["cells"]):
        lines.append("cell new %s.c%d %s" % (lid, ci, hx(c["name"])))
    for ci, c in enumerate(lib["cells"]):
        cid = "%s.c%d" % (lid, ci)
        for pi, p in enumerate(c["polys"]):
            pid = "%s.p%d" % (cid, pi)
            lines.append("poly new %s %d %d %d %s" % (pid, p["tag"][0], p["tag"][1], len(p["pts"]), " ".join(fl(v * g) for q in p["pts"] for v in q)))
            if p["rep"] is not None:
                lines.append("rep set poly %s %s" % (pid, rep_spec(p["rep"], g)))
            lines += prop_lines("poly", pid, p["props"])
            lines.append("cell add %s poly %s" % (cid, pid))
        for pi, p in enumerate(c["paths"]):
            pid = "%s.w%d" % (cid, pi)
            lines += path_lines(pid, p, g)
            lines.append("cell add %s %s %s" % (cid, p["kind"], pid))
            if queries:
                if p["simple"]:
                    lines.append("%s center %s" % (p["kind"], pid))
                else:
                    lines.append("%s topoly %s 0 0 0 -" % (p["kind"], pid))
                qindex.append((ci, pi))
        for li, l in enumerate(c["labels"]):
            eid = "%s.l%d" % (cid, li)
            lines.append("label new %s %s %d %d %s %s %d %s %s %d" % (eid, hx(l["text"]), l["tag"][0], l["tag"][1], fl(l["origin"][0] * g),
                                                                      fl(l["origin"][1] * g), l["anchor"], fl(l["rot"]), fl(l["mag"]), 1 if l["xr"] else 0))
            if l["rep"] is not None:
                lines.append("rep set label %s %s" % (eid, rep_spec(l["rep"], g)))
            lines += prop_lines("label", eid, l["props"])
            lines.append("cell add %s label %s" % (cid, eid))
        for ri, r in enumerate(c["refs"]):
            eid = "%s.r%d" % (cid, ri)
            if r["kind"] == "cell":
                tgt = "cell %s.c%d" % (lid, r["target"])
            elif r["kind"] == "name":
                tgt = "name %s" % hx(lib["cells"][r["target"]]["name"])
            else:
                tgt = "name %s" % hx(r["target"])
            lines.append("ref new %s %s %s %s %s %s %d" % (eid, tgt, fl(r["origin"][0] * g), fl(r["origin"][1] * g), fl(r["rot"]), fl(r["mag"]),
                                                         1 if r["xr"] else 0))
            if r["rep"] is not None:
                lines.append("rep set ref %s %s" % (eid, rep_spec(r["rep"], g)))
            lines += prop_lines("ref", eid, r["props"])
            lines.append("cell add %s ref %s" % (cid, eid))
    for ci, c in enumerate(lib["cells"]):
        if not c.get("outside"):
            lines.append("lib add %s %s.c%d" % (lid, lid, ci))
    return lines, qindex


def ref_target_name(lib, r):
    return lib["cells"][r["target"]]["name"] if r["kind"] in ("cell", "name") else r["target"]


# ------------------------------------------------------------------------------------------------ dump helpers
def to_grid(v, g):
    return v / g


def dump_props_gds(props):
    """driver property dump -> [[attr, value-str]] for GDSII properties (S_GDS_PROPERTY with (u attr, s value+NUL))"""
    out = []
    for p in props:
        name = bytes.fromhex(p["name"]).decode("latin-1")
        vals = p["values"]
        if name == "S_GDS_PROPERTY" and len(vals) == 2 and vals[0][0] == "u" and vals[1][0] == "s":
            b = bytes.fromhex(vals[1][1])
            if b.endswith(b"\0"):
                b = b[:-1]
            out.append([vals[0][1], b.decode("latin-1")])
        else:
            out.append([name, vals])
    return out
