"""C03 - GDSII reader and writer agree with the format specification (independent codec pbt/gdsref.py)."""
import math
from fractions import Fraction

from hypothesis import strategies as st

from common import Violation, WARNINGS, fl
import gdsref
import gdsmodel as gm
import layoutgen as lg

LEVEL = "exploration"
RULE = ("direction A (reader): Hypothesis-generated abstract GDSII layouts (1-4 structures incl. forward and dangling references; "
        "BOUNDARY, BOX, PATH with pathtype absent/0/1/2/4, WIDTH absent/positive/negative, BGNEXTN/ENDEXTN; SREF/AREF with "
        "STRANS/MAG/ANGLE each optional, any angle, lattice aligned with the rotated and reflected axes; TEXT with "
        "PRESENTATION incl. font bits, optional PATHTYPE/WIDTH/STRANS; properties on every element kind; coordinates to "
        "2^31) serialised by my own encoder with drawn choice points (header version, optional library records, structure "
        "order, STRCLASS, ELFLAGS/PLEX, XY split over 1..n records, unnormalised reals, string padding), any UNITS and a "
        "requested target unit from {none, file unit, 1e-6, 1e-9, 3.7e-7}: dump(read_gds(bytes)) must equal the denoted "
        "layout. direction B (writer): layoutgen libraries written by write_gds are parsed by the strict decoder (even "
        "lengths, record/data types, element grammar and order, closed boundaries >= 4 points, 16/32-bit ranges, exact "
        "8-byte reals, <= 8191 points per XY unless UnofficialSpecification was returned) and compared with the expected "
        "library of C01. codec self-check: strict_decode(encode(x, choices)) == x on every case. Non-trivial: >= 3 encoder "
        "choice points away from their default (A) / library non-trivial in C01's sense (B); distinct by case hash")
ASSUMPTIONS = ["the format facts of DESIGN.md Appendix A.1 (my reading of the Calma GDSII Stream Format manual rel. 6.0)",
               "unsupported optional records may be reported through a warning error code; the layout must still be right",
               "several XY records per element are accepted by the strict decoder (gdstk writes them above 8190 points and flags it)"]

coord = st.one_of(st.integers(-100, 100), st.integers(-40000, 40000), st.integers(-2 ** 31 + 1, 2 ** 31 - 1),
                  st.sampled_from([32767, 32768, -32768, 65535, 65536, 2 ** 31 - 1, -2 ** 31 + 1]))
small = st.integers(-3000, 3000)
name_st = st.text(alphabet="ABCDEFGHIJKLMNOPQRSTUVWXYZabcdefghijklmnopqrstuvwxyz0123456789_$?", min_size=1, max_size=11)
ANGLES = [0.0, 90.0, 180.0, 270.0, -90.0, 45.0, 30.0, 360.0, 450.0, 33.3, 0.5, 123.456]
MAGS = [0.5, 2.0, 1.5, 0.25, 10.0, 1.0 / 3, 1e-3, 1.0]


@st.composite
def props_st(draw):
    n = draw(st.integers(0, 2))
    attrs = draw(st.lists(st.sampled_from([0, 1, 2, 127, 128, 32767, 32768, 65535]), min_size=n, max_size=n, unique=True))
    return [[a, draw(st.text(alphabet="abcXYZ 0123456789#", min_size=1, max_size=8))] for a in attrs]


@st.composite
def strans_st(draw):
    if draw(st.integers(0, 3)) == 0:
        return None
    return {"refl": draw(st.booleans()), "mag": draw(st.one_of(st.none(), st.sampled_from(MAGS))),
            "angle": draw(st.one_of(st.none(), st.sampled_from(ANGLES)))}


@st.composite
def element(draw, names):
    k = draw(st.sampled_from(["boundary", "boundary", "box", "path", "path", "sref", "aref", "text"]))
    el = {"kind": k, "props": draw(props_st())}
    if draw(st.integers(0, 5)) == 0:
        el["elflags"] = draw(st.sampled_from([0, 1, 2, 3]))
    if draw(st.integers(0, 5)) == 0:
        el["plex"] = draw(st.integers(0, 2 ** 24))
    if k in ("boundary", "box", "path", "text"):
        el["layer"] = draw(st.sampled_from([0, 1, 2, 63, 255, 256, 32767]))
        el["datatype"] = draw(st.sampled_from([0, 1, 5, 255, 32767]))
    cx, cy = draw(coord), draw(coord)

    def near(dx, dy):
        return [max(-2 ** 31 + 1, min(2 ** 31 - 1, cx + dx)), max(-2 ** 31 + 1, min(2 ** 31 - 1, cy + dy))]
    if k == "boundary":
        n = draw(st.integers(3, 9))
        pts = [near(draw(small), draw(small)) for _ in range(n)]
        if pts[0] == pts[-1]:
            pts[-1] = near(3001, 3001)
        el["xy"] = pts + [pts[0]]
    elif k == "box":
        w, h = draw(st.integers(1, 3000)), draw(st.integers(1, 3000))
        el["xy"] = [near(0, 0), near(w, 0), near(w, h), near(0, h), near(0, 0)]
    elif k == "path":
        n = draw(st.integers(2, 7))
        pts = []
        for _ in range(n):
            p = near(draw(small), draw(small))
            if pts and p == pts[-1]:
                p = near(p[0] - cx + 7, p[1] - cy)
            pts.append(p)
        el["xy"] = pts
        el["pathtype"] = draw(st.sampled_from([None, 0, 1, 2, 4]))
        el["width"] = draw(st.one_of(st.none(), st.sampled_from([0, 1, 2, 10, 101, -1, -10, -101, 40000])))
        if el["pathtype"] == 4:
            el["bgnextn"] = draw(st.one_of(st.none(), st.integers(-50, 500)))
            el["endextn"] = draw(st.one_of(st.none(), st.integers(-50, 500)))
    elif k in ("sref", "aref"):
        el["sname"] = draw(st.sampled_from(names + ["DANGLING"]))
        el["strans"] = draw(strans_st())
        if k == "sref":
            el["xy"] = [near(0, 0)]
        else:
            cols, rows = draw(st.sampled_from([1, 2, 3, 7, 200])), draw(st.sampled_from([1, 2, 3, 7]))
            dx, dy = draw(st.integers(-500, 500)), draw(st.integers(-500, 500))
            ang = (el["strans"] or {}).get("angle") or 0.0
            refl = (el["strans"] or {}).get("refl", False)
            th = math.radians(ang)
            ca, sa = math.cos(th), math.sin(th)
            ry = -dy if refl else dy
            p1 = near(0, 0)
            cx2, cy2 = int(round(cols * dx * ca)), int(round(cols * dx * sa))
            rx3, ry3 = int(round(-rows * ry * sa)), int(round(rows * ry * ca))
            el["cols"], el["rows"] = cols, rows
            el["xy"] = [p1, [p1[0] + cx2, p1[1] + cy2], [p1[0] + rx3, p1[1] + ry3]]
            if any(abs(v) > 2 ** 31 - 1 for p in el["xy"] for v in p):
                el["xy"] = [[0, 0], [cx2, cy2], [rx3, ry3]]
    else:
        el["xy"] = [near(0, 0)]
        el["presentation"] = draw(st.one_of(st.none(), st.sampled_from([0, 1, 2, 4, 5, 6, 8, 9, 10, 0x10 | 5, 0x20 | 2, 0x30 | 8])))
        el["pathtype"] = draw(st.sampled_from([None, None, 0, 1]))
        el["width"] = draw(st.sampled_from([None, None, 5, -7]))
        el["strans"] = draw(strans_st())
        el["string"] = draw(st.text(alphabet="abcdefgXYZ 0123456789.-", min_size=1, max_size=12))
    return el


@st.composite
def layout_case(draw):
    n = draw(st.integers(1, 4))
    names = draw(st.lists(name_st, min_size=n, max_size=n, unique=True))
    structs = []
    for nm in names:
        els = [draw(element(names)) for _ in range(draw(st.integers(0, 6)))]
        # no self/cyclic references: structure i may reference only structures with a larger index or dangling names
        idx = names.index(nm)
        for e in els:
            if e["kind"] in ("sref", "aref") and e["sname"] in names and names.index(e["sname"]) <= idx:
                e["sname"] = names[idx + 1] if idx + 1 < n else "DANGLING"
        structs.append({"name": nm, "elements": els, "bgnstr": [draw(st.integers(1900, 2100)), draw(st.integers(1, 12)), draw(st.integers(1, 28)),
                                                                draw(st.integers(0, 23)), draw(st.integers(0, 59)), draw(st.integers(0, 59))] * 2})
    units = draw(st.sampled_from([[1e-3, 1e-9], [1e-2, 1e-8], [1e-3, 1e-6], [1.0 / 1024, 2.0 ** -30], [0.5, 5e-10], [1e-3, 1e-12], [1.0, 1e-6]]))
    target = draw(st.sampled_from([0.0, 0.0, "file", 1e-6, 1e-9, 3.7e-7]))
    choices = draw(st.lists(st.integers(0, 11), min_size=1, max_size=24))
    return {"layout": {"libname": draw(st.sampled_from(["LIB", "library", "x"])), "units": units, "structs": structs,
                       "bgnlib": [2001, 2, 3, 4, 5, 6, 2007, 8, 9, 10, 11, 12]},
            "choices": choices, "target": target}


def norm_layout(lay):
    """comparison form for the codec self check"""
    out = {"libname": lay["libname"], "structs": []}
    for s in lay["structs"]:
        els = []
        for e in s["elements"]:
            d = {k: v for k, v in e.items() if v is not None and k not in ("props",)}
            if "strans" in d:
                st_ = d["strans"]
                d["strans"] = {"refl": bool(st_.get("refl")), "mag": None if st_.get("mag") is None else float(gdsref.real8_decode(gdsref.real8_encode(st_["mag"]))),
                               "angle": None if st_.get("angle") is None else float(gdsref.real8_decode(gdsref.real8_encode(st_["angle"])))}
            d["props"] = [[a, v] for a, v in e.get("props", [])]
            els.append(d)
        out["structs"].append({"name": s["name"], "elements": els, "bgnstr": s.get("bgnstr")})
    return out


def check_reader(ctx, case):
    lay = case["layout"]
    ch = gdsref.Choices(case["choices"])
    data = gdsref.encode(lay, ch)
    # codec self check
    try:
        back = gdsref.strict_decode(data)
    except gdsref.FormatError as e:
        raise RuntimeError("codec self-check: my decoder rejects my encoder's output: %s" % e)
    nb = norm_layout(back)
    for s in nb["structs"]:
        for e in s["elements"]:
            if e.get("strans"):
                e["strans"] = {"refl": e["strans"]["refl"], "mag": None if e["strans"]["mag"] is None else float(e["strans"]["mag"]),
                               "angle": None if e["strans"]["angle"] is None else float(e["strans"]["angle"])}
    want = norm_layout(lay)
    by = {s["name"]: s for s in nb["structs"]}
    for s in want["structs"]:
        if by.get(s["name"]) != s:
            raise RuntimeError("codec self-check failed for structure %s: %r vs %r" % (s["name"], by.get(s["name"]), s))
    ctx.stats.count("codec_selfchecks")
    path = ctx.path("a.gds")
    with open(path, "wb") as fh:
        fh.write(data)
    du = float(gdsref.real8_decode(gdsref.real8_encode(lay["units"][0])))
    dm = float(gdsref.real8_decode(gdsref.real8_encode(lay["units"][1])))
    target = case["target"]
    U = 0.0 if target == 0.0 else (dm / du if target == "file" else target)
    lines = ["io read_gds R %s %s %s N" % (path, fl(U), fl(1e-12)), "dump lib R"]
    outs = ctx.run(lines, case)
    if outs[0]["err"] not in WARNINGS:
        raise Violation("read_gds returned error %d on a valid stream" % outs[0]["err"], case, 0, outs[0]["err"])
    d = outs[1]["lib"]
    factor = du if U == 0.0 else dm / U
    exp_unit = (dm / du) if U == 0.0 else U

    def close(a, b, tol=1e-13):
        return abs(a - b) <= tol * max(abs(a), abs(b)) or abs(a - b) < 1e-300

    def fail(msg, exp=None, got=None):
        raise Violation("reader: " + msg, case, exp, got, ["<file written by gdsref.encode, %d bytes>" % len(data)] + lines)
    if not close(d["unit"], exp_unit, 1e-15) or not close(d["precision"], dm, 1e-15):
        fail("unit/precision %r/%r, the stream says %r/%r (target unit %r)" % (d["unit"], d["precision"], exp_unit, dm, target))
    names = [s["name"] for s in lay["structs"]]
    cells = {bytes.fromhex(c["name"]).decode("latin-1"): c for c in d["cells"]}
    if sorted(cells) != sorted(names):
        fail("cells %s, stream has %s" % (sorted(cells), sorted(names)))

    def props_of(dumped):
        return sorted(map(repr, lg.dump_props_gds(dumped)))
    for s in lay["structs"]:
        c = cells[s["name"]]
        pools = {"polygons": list(c["polygons"]), "flexpaths": list(c["flexpaths"]), "labels": list(c["labels"]), "refs": list(c["refs"])}

        def take(kind, pred, what):
            for i, x in enumerate(pools[kind]):
                if pred(x):
                    pools[kind].pop(i)
                    return x
            fail("structure %s: %s not found in the loaded cell; candidates: %s" % (s["name"], what, str(pools[kind])[:600]))
        for e in s["elements"]:
            k = e["kind"]
            eprops = sorted(map(repr, [[a, v] for a, v in e["props"]]))
            if k in ("boundary", "box"):
                pts = [(factor * x, factor * y) for x, y in e["xy"][:-1]]
                take("polygons", lambda x: x["tag"] == [e["layer"], e["datatype"]] and len(x["pts"]) == len(pts) and
                     all(close(a[0], b[0]) and close(a[1], b[1]) for a, b in zip(x["pts"], pts)) and x["rep"] is None and props_of(x["props"]) == eprops,
                     "%s layer %d type %d with %d points %s" % (k, e["layer"], e["datatype"], len(pts), pts[:3]))
            elif k == "path":
                pts = [(factor * x, factor * y) for x, y in e["xy"]]
                w = e.get("width")
                hw = factor * abs(w or 0) / 2
                end = {None: 0, 0: 0, 1: 1, 2: 2, 4: 3}[e.get("pathtype")]
                ext = (factor * (e.get("bgnextn") or 0), factor * (e.get("endextn") or 0))

                def pred(x):
                    if len(x["elements"]) != 1 or not x["simple"]:
                        return False
                    el = x["elements"][0]
                    if el["tag"] != [e["layer"], e["datatype"]] or el["end"] != end:
                        return False
                    if len(x["spine"]) != len(pts) or not all(close(a[0], b[0]) and close(a[1], b[1]) for a, b in zip(x["spine"], pts)):
                        return False
                    if any(not close(h[0], hw) or h[1] != 0 for h in el["hwo"]) or len(el["hwo"]) != len(pts):
                        return False
                    if w and x["scale_width"] != (w > 0):
                        return False
                    if end == 3 and not (close(el["ext"][0], ext[0]) and close(el["ext"][1], ext[1])):
                        return False
                    return props_of(x["props"]) == eprops
                take("flexpaths", pred, "PATH layer %d type %d pathtype %r width %r extensions %r/%r points %s" %
                     (e["layer"], e["datatype"], e.get("pathtype"), w, e.get("bgnextn"), e.get("endextn"), pts[:3]))
            elif k == "text":
                st_ = e.get("strans") or {}
                rot = math.pi / 180.0 * float(gdsref.real8_decode(gdsref.real8_encode(st_["angle"]))) if st_.get("angle") is not None else 0.0
                mag = float(gdsref.real8_decode(gdsref.real8_encode(st_["mag"]))) if st_.get("mag") is not None else 1.0
                anchor = (e.get("presentation") or 0) & 0xF
                o = (factor * e["xy"][0][0], factor * e["xy"][0][1])
                take("labels", lambda x: bytes.fromhex(x["text"] or "").decode("latin-1") == e["string"] and x["tag"] == [e["layer"], e["datatype"]] and
                     close(x["origin"][0], o[0]) and close(x["origin"][1], o[1]) and x["anchor"] == anchor and close(x["rotation"], rot, 1e-15) and
                     close(x["mag"], mag, 1e-15) and x["xrefl"] == bool(st_.get("refl")) and x["rep"] is None and props_of(x["props"]) == eprops,
                     "TEXT %r layer %d type %d at %s anchor %d rot %r mag %r refl %s" % (e["string"], e["layer"], e["datatype"], o, anchor, rot, mag, st_.get("refl")))
            else:
                st_ = e.get("strans") or {}
                rot = math.pi / 180.0 * float(gdsref.real8_decode(gdsref.real8_encode(st_["angle"]))) if st_.get("angle") is not None else 0.0
                mag = float(gdsref.real8_decode(gdsref.real8_encode(st_["mag"]))) if st_.get("mag") is not None else 1.0
                resolved = e["sname"] in names
                p1 = e["xy"][0]
                o = (factor * p1[0], factor * p1[1])

                def placements_of(x):
                    rep = x["rep"]
                    if rep is None:
                        return [(x["origin"][0], x["origin"][1])]
                    import repgen
                    return [(x["origin"][0] + a, x["origin"][1] + b) for a, b in repgen.offsets(rep)]
                if k == "sref":
                    want_pl = [o]
                else:
                    cols, rows = e["cols"], e["rows"]
                    p2, p3 = e["xy"][1], e["xy"][2]
                    v1 = ((factor * p2[0] - o[0]) / cols, (factor * p2[1] - o[1]) / cols)
                    v2 = ((factor * p3[0] - o[0]) / rows, (factor * p3[1] - o[1]) / rows)
                    want_pl = [(o[0] + i * v1[0] + j * v2[0], o[1] + i * v1[1] + j * v2[1]) for i in range(cols) for j in range(rows)]

                def pred(x):
                    if bytes.fromhex(x["target"] or "").decode("latin-1") != e["sname"] or (x["type"] == "cell") != resolved:
                        return False
                    if not (close(x["rotation"], rot, 1e-15) and close(x["mag"], mag, 1e-15) and x["xrefl"] == bool(st_.get("refl"))):
                        return False
                    if props_of(x["props"]) != eprops:
                        return False
                    got = placements_of(x)
                    if len(got) != len(want_pl):
                        return False
                    scale = max(1e-30, max(abs(v) for p in want_pl for v in p))
                    rest = list(got)
                    for wp in want_pl:
                        hit = None
                        for i2, gp in enumerate(rest):
                            if abs(gp[0] - wp[0]) <= 1e-9 * scale + 1e-9 * abs(factor) and abs(gp[1] - wp[1]) <= 1e-9 * scale + 1e-9 * abs(factor):
                                hit = i2
                                break
                        if hit is None:
                            return False
                        rest.pop(hit)
                    return True
                take("refs", pred, "%s to %r at %s (rot %r mag %r refl %s%s)" % (k.upper(), e["sname"], o, rot, mag, st_.get("refl"),
                                                                                  ", %dx%d points %s" % (e["cols"], e["rows"], e["xy"]) if k == "aref" else ""))
        for kind, rest in pools.items():
            if rest:
                fail("structure %s: %d unexpected %s after load: %s" % (s["name"], len(rest), kind, str(rest[0])[:400]))
        if c["robustpaths"]:
            fail("robust paths after a GDSII load")
    kinds = {e["kind"] for s in lay["structs"] for e in s["elements"]}
    ctx.stats.note(case, len(ch.used_nondefault) >= 3, ["reader", "target_%s" % target] + ["has_" + k for k in sorted(kinds)] +
                   ["choice_" + c for c in sorted(ch.used_nondefault)])


# ------------------------------------------------------------------------------ direction B
def pseudo_dump(lay):
    """strictly decoded stream -> the dict shape of the driver's library dump (user units), so that gdsmodel can compare"""
    du = float(lay["units"][0])
    dm = float(lay["units"][1])
    cells = []
    for s in lay["structs"]:
        c = {"name": s["name"].encode("latin-1").hex(), "polygons": [], "flexpaths": [], "robustpaths": [], "labels": [], "refs": []}
        for e in s["elements"]:
            props = [{"name": b"S_GDS_PROPERTY".hex(), "values": [["u", a], ["s", (v.encode("latin-1") + b"\0").hex()]]} for a, v in e["props"]]
            k = e["kind"]
            if k in ("boundary", "box"):
                c["polygons"].append({"tag": [e["layer"], e["datatype"]], "pts": [[du * x, du * y] for x, y in e["xy"][:-1]], "rep": None, "props": props})
            elif k == "path":
                w = e.get("width") or 0
                end = {None: 0, 0: 0, 1: 1, 2: 2, 4: 3}[e.get("pathtype")]
                c["flexpaths"].append({"spine": [[du * x, du * y] for x, y in e["xy"]], "simple": True, "scale_width": w >= 0 if e.get("width") is not None else True,
                                       "elements": [{"tag": [e["layer"], e["datatype"]], "hwo": [[du * abs(w) / 2, 0.0]] * len(e["xy"]), "end": end,
                                                     "ext": [du * (e.get("bgnextn") or 0), du * (e.get("endextn") or 0)]}], "rep": None, "props": props})
            elif k == "text":
                st_ = e.get("strans") or {}
                c["labels"].append({"tag": [e["layer"], e["datatype"]], "text": e["string"].encode("latin-1").hex(), "origin": [du * e["xy"][0][0], du * e["xy"][0][1]],
                                    "anchor": (e.get("presentation") or 0) & 0xF, "rotation": math.pi / 180 * float(st_.get("angle") or 0),
                                    "mag": float(st_["mag"]) if st_.get("mag") is not None else 1.0, "xrefl": bool(st_.get("refl")), "rep": None, "props": props})
            else:
                st_ = e.get("strans") or {}
                rep = None
                if k == "aref":
                    o = e["xy"][0]
                    rep = {"type": "regular", "cols": e["cols"], "rows": e["rows"],
                           "v1": [du * (e["xy"][1][0] - o[0]) / e["cols"], du * (e["xy"][1][1] - o[1]) / e["cols"]],
                           "v2": [du * (e["xy"][2][0] - o[0]) / e["rows"], du * (e["xy"][2][1] - o[1]) / e["rows"]]}
                c["refs"].append({"type": "cell" if any(s2["name"] == e["sname"] for s2 in lay["structs"]) else "name", "target": e["sname"].encode("latin-1").hex(),
                                  "origin": [du * e["xy"][0][0], du * e["xy"][0][1]], "rotation": math.pi / 180 * float(st_.get("angle") or 0),
                                  "mag": float(st_["mag"]) if st_.get("mag") is not None else 1.0, "xrefl": bool(st_.get("refl")), "rep": rep, "props": props})
        cells.append(c)
    return {"name": lay["libname"].encode("latin-1").hex(), "unit": dm / du, "precision": dm, "cells": cells}


def check_writer(ctx, case):
    lib = case["lib"]
    mp = case["max_points"]
    lines, qindex = lg.build_script(lib, "L")
    path = ctx.path("b.gds")
    nq = len(qindex)
    ts = case.get("timestamp", [2020, 2, 3, 4, 5, 6])
    lines.append("io write_gds L %s %d T %s" % (path, mp, " ".join(map(str, ts))))
    outs = ctx.run(lines, case)
    queries = {qindex[i]: outs[i] for i in range(nq)}
    for q in queries.values():
        errs = [c["err"] for c in q["centers"]] if "centers" in q else [q["err"]]
        if any(e != 0 for e in errs):
            ctx.stats.note(case, False, ["path_outline_error"])
            return
    w = outs[nq]
    if w["err"] not in WARNINGS:
        raise Violation("write_gds returned error %d" % w["err"], case, 0, w["err"], lines)
    with open(path, "rb") as fh:
        data = fh.read()
    try:
        lay = gdsref.strict_decode(data)
    except gdsref.FormatError as e:
        raise Violation("writer: the strict decoder rejects the file gdstk wrote: %s" % e, case, None, None, lines)
    if "multi_record_xy" in lay["notes"] and w["err"] != 6:
        raise Violation("writer: an element with several XY records was written without UnofficialSpecification", case, 6, w["err"], lines)
    if lay["bgnlib"] != ts * 2:
        raise Violation("writer: BGNLIB timestamp %s, requested %s" % (lay["bgnlib"], ts), case, ts * 2, lay["bgnlib"], lines)
    for s in lay["structs"]:
        if s["bgnstr"] != ts * 2:
            raise Violation("writer: BGNSTR timestamp %s, requested %s" % (s["bgnstr"], ts), case, ts * 2, s["bgnstr"], lines)
    if lay["libname"] != lib["name"]:
        raise Violation("writer: LIBNAME %r, library is called %r" % (lay["libname"], lib["name"]), case, lib["name"], lay["libname"], lines)
    expected = gm.expected_cells(lib, mp, queries)
    try:
        gm.compare_library(lib, expected, pseudo_dump(lay), mp, ctx.stats)
    except gm.Mismatch as m:
        raise Violation("writer (file decoded by the independent strict decoder, max_points=%d): %s" % (mp, m), case, None, None, lines)
    import prop_c01
    nt, kinds = prop_c01.nontrivial(lib, mp)
    ctx.stats.note(case, nt, ["writer"] + ["has_" + k for k in sorted(kinds)])


@st.composite
def writer_case(draw):
    import prop_c01
    c = draw(prop_c01.case_strategy())
    c["timestamp"] = [draw(st.integers(1900, 2155)), draw(st.integers(1, 12)), draw(st.integers(1, 31)), draw(st.integers(0, 23)),
                      draw(st.integers(0, 59)), draw(st.integers(0, 59))]
    c["dir"] = "B"
    return c


def check(ctx, case):
    if "layout" in case:
        return check_reader(ctx, case)
    return check_writer(ctx, case)


def run_worker(ctx):
    q = ctx.tier == "quick"
    vs = []
    for name, strat, total in (("reader", layout_case(), 2000 if q else 40000), ("writer", writer_case(), 1000 if q else 15000)):
        v = ctx.hypothesis(check, strat, ctx.share(total), name)
        if v:
            vs.append(v)
    return vs


def replay(ctx, test, case, ignore_known=False):
    return check(ctx, case)
