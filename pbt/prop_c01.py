"""C01 - GDSII save/load round trip preserves the layout."""
import math
import os

from hypothesis import strategies as st

from common import Violation, WARNINGS, fl
import layoutgen as lg
import gdsmodel as gm

LEVEL = "exploration"
RULE = ("Hypothesis-generated libraries inside the stated domain (1-5 cells, acyclic references by pointer / by name / dangling, "
        "tags 0..32767, coordinates on the precision grid plus a sub-grid jitter <= 0.3, magnitudes up to 2^31-5000 grid units, "
        "units from {1e-6/1e-9, 1e-6/5e-9, 1e-9/1e-12, 1/1e-3, 1e-3/1e-6}): polygons of six families, simple flexpaths "
        "(1-3 elements, flush/round/half-width/extended ends, either width-scaling state; a third of those with a spine in general "
        "position carry constant element offsets, their expected centre line being my own mitred offset polyline; one case in "
        "twenty adds a zigzag simple path of 8189..20000 points, i.e. several XY records), non-simple flex and robust paths, "
        "simple robust paths, labels with every anchor/rotation/magnification/reflection, references with rotation x "
        "magnification x reflection and lattices that are / are not AREF-representable (both vector orders), every "
        "repetition kind on every element kind, GDSII properties with odd/even value lengths and attributes to 65535; "
        "vertex limit from {0,5,6,8,199,8190}; 1-3 save/load cycles. Oracle: Python model of the expected reloaded library "
        "(pbt/gdsmodel.py): per cell and element kind the reloaded elements are matched as a multiset against the "
        "originals; every reloaded coordinate is on the grid and within 0.5 grid unit of the original; over-limit polygons "
        "re-load as pieces within the vertex limit covering each decidable sample point as often as the originals did; "
        "cycles 2 and 3 reproduce cycle 1 exactly. Non-trivial: >= 2 element kinds and at least one of {repetition, "
        "reference with non-identity transform, non-simple path, property, polygon over the vertex limit}; distinct by case hash")
ASSUMPTIONS = ["centre lines of simple paths and outlines of non-simple paths are taken from gdstk (element_center/to_polygons of the "
               "original): C01 judges their transport, C07/C08 their correctness",
               "array lattices whose vectors are off-grid: an AREF holds three separately rounded corner points, so placement (i, j) is "
               "compared with the bound |e0||1-a-b| + (a+b)/2 grid units, a = i/cols, b = j/rows, e0 = rounding of the origin (at most 1.5)",
               "property order is not compared (set_gds_property prepends)"]


@st.composite
def case_strategy(draw, thorough=False):
    lib = draw(lg.library(path_kinds=("simple_fp", "simple_fp", "outline_fp", "rp", "simple_rp")))
    # simple robust paths that were scaled after construction
    for c in lib["cells"]:
        for p in c["paths"]:
            if p["kind"] == "rp" and p["simple"] and draw(st.integers(0, 2)) == 0:
                p["prescale"] = draw(st.sampled_from([2.0, 0.5, 3.0]))
    # simple flexible paths whose elements are offset from the spine: the saved centre line is the spine displaced sideways with
    # mitred corners (expected from my own line intersections, gdsmodel.offset_polyline), only for spines in general position
    # (consecutive directions between 6 and 174 degrees apart, where the intersection is well conditioned)
    for c in lib["cells"]:
        for p in c["paths"]:
            if p["kind"] == "fp" and p["simple"] and gm.general_position(p["spine"]) and draw(st.integers(0, 2)) == 0:
                for e in p["els"]:
                    e["off"] = float(draw(st.sampled_from([-12, -5, 3, 8, 20])))
    # occasionally a simple path around the 8190-vertex limit of one XY record (multi-record centre lines): a zigzag
    if draw(st.integers(0, 19)) == 0:
        npt = draw(st.sampled_from([8189, 8190, 8191, 8192, 8193, 16381, 20000]))
        x0, y0 = draw(st.integers(-500, 500)), draw(st.integers(-500, 500))
        lib["cells"][0]["paths"].append({"kind": "fp", "simple": True, "scale_width": True, "tol": 0.01,
                                         "spine": [[float(x0 + 5 * i), float(y0 + (7 if i % 2 else 0))] for i in range(npt)],
                                         "els": [{"tag": [6, 6], "w": 2.0, "off": 0.0, "end": "flush", "ext": [0.0, 0.0], "join": 0}],
                                         "rep": None, "props": []})
    # occasionally a very large array (COLROW near the 16-bit boundary) on an on-grid lattice
    if draw(st.integers(0, 9)) == 0:
        for c in lib["cells"]:
            for r in c["refs"]:
                if r["rot"] == 0.0 and not r["xr"]:
                    r["rep"] = {"type": "rect", "cols": draw(st.sampled_from([32767, 32768, 40000, 65535])), "rows": draw(st.sampled_from([1, 2])),
                                "spacing": [float(draw(st.integers(1, 3))), float(draw(st.integers(1, 3)))]}
                    r["origin"] = [float(int(r["origin"][0]) % 1000), float(int(r["origin"][1]) % 1000)]
                    break
    # occasionally a polygon around the 8190-vertex record limit (multi-record XY lists) - a rectilinear comb
    if draw(st.integers(0, 14)) == 0:
        import prop_c12
        nv = draw(st.sampled_from([8188, 8192, 8196, 20000]))
        pts = prop_c12.comb(nv // 4, 3, 40, 10, draw(st.integers(-500, 500)), draw(st.integers(-500, 500)))
        k = draw(st.sampled_from([0, 1, 2]))
        pts = pts[:len(pts) - k] if k else pts   # 8188-k .. : lengths on both sides of the limit
        lib["cells"][0]["polys"].append({"tag": [5, 5], "pts": [[float(x), float(y)] for x, y in pts], "rep": None, "props": [[3, "big"]]})
        big = True
    else:
        big = False
    # (a many-thousand-vertex polygon is only combined with the larger limits: fracturing it into 5-vertex pieces under
    # the sanitizers takes longer than the quick-tier watchdog and is C12's subject)
    if big:
        mp = 0 if nv > 9000 else draw(st.sampled_from([0, 8190]))
    else:
        mp = draw(st.sampled_from([0, 0, 5, 6, 8, 199, 8190]))
    cycles = draw(st.sampled_from([1, 2, 3]))
    return {"lib": lib, "max_points": mp, "cycles": cycles}


def nontrivial(lib, mp):
    kinds = set()
    feat = False
    for c in lib["cells"]:
        if c["polys"]:
            kinds.add("poly")
        if c["paths"]:
            kinds.add("path")
        if c["labels"]:
            kinds.add("label")
        if c["refs"]:
            kinds.add("ref")
        for e in c["polys"] + c["paths"] + c["labels"] + c["refs"]:
            if e.get("rep") is not None or e.get("props"):
                feat = True
        for p in c["paths"]:
            if not p["simple"]:
                feat = True
        for r in c["refs"]:
            if r["rot"] != 0 or r["mag"] != 1 or r["xr"]:
                feat = True
        for p in c["polys"]:
            if mp > 4 and len(p["pts"]) > mp:
                feat = True
    return len(kinds) >= 2 and feat, kinds


def check(ctx, case):
    lib = case["lib"]
    mp = case["max_points"]
    lines, qindex = lg.build_script(lib, "L")
    path = ctx.path("rt.gds")
    nq = len(qindex)
    lines.append("io write_gds L %s %d" % (path, mp))
    # path tolerance handed to the reader: a quarter grid unit, so that distinct grid points are never "overlapping"
    rtol = fl(0.25 * lib["precision"] / lib["unit"])
    lines.append("io read_gds R1 %s 0 %s N" % (path, rtol))
    lines.append("dump lib R1")
    prev = "R1"
    for k in range(2, case["cycles"] + 1):
        p2 = ctx.path("rt%d.gds" % k)
        lines.append("io write_gds %s %s 0" % (prev, p2))
        lines.append("io read_gds R%d %s 0 %s N" % (k, p2, rtol))
        lines.append("dump lib R%d" % k)
        prev = "R%d" % k
    outs = ctx.run(lines, case)
    queries = {qindex[i]: outs[i] for i in range(nq)}
    for (ci, pi), q in queries.items():
        errs = [c["err"] for c in q["centers"]] if "centers" in q else [q["err"]]
        if any(e != 0 for e in errs):
            # the path itself cannot be outlined (intersection not found etc.): outside C01's subject
            ctx.stats.note(case, False, ["path_outline_error"])
            return
    w, r, d = outs[nq], outs[nq + 1], outs[nq + 2]
    if w["err"] not in WARNINGS:
        raise Violation("write_gds returned error %d" % w["err"], case, 0, w["err"], lines)
    if r["err"] not in WARNINGS:
        raise Violation("read_gds of the file just written returned error %d" % r["err"], case, 0, r["err"], lines)
    expected = gm.expected_cells(lib, mp, queries)
    try:
        gm.compare_library(lib, expected, d["lib"], mp, ctx.stats)
    except gm.Mismatch as m:
        raise Violation("GDSII round trip (max_points=%d): %s" % (mp, m), case, None, None, lines)
    # further cycles change nothing more
    first = d["lib"]
    for k in range(2, case["cycles"] + 1):
        o = outs[nq + 3 * (k - 1): nq + 3 * k]
        if o[0]["err"] not in WARNINGS or o[1]["err"] not in WARNINGS:
            raise Violation("cycle %d: write/read error %d/%d" % (k, o[0]["err"], o[1]["err"]), case, 0, [o[0]["err"], o[1]["err"]], lines)
        offgrid = any(r["rep"] is not None and not gm.lattice_on_grid(r["rep"]) for c in lib["cells"] for r in c["refs"])
        diff = lib_diff(first, o[2]["lib"], 1.01 * lib["precision"] / lib["unit"] if offgrid else 0.0)
        if diff:
            raise Violation("save/load cycle %d changed the library again: %s" % (k, diff), case, None, None, lines)
    nt, kinds = nontrivial(lib, mp)
    labels = ["cycles_%d" % case["cycles"], "max_points_%d" % mp] + ["has_" + k for k in sorted(kinds)]
    for c in lib["cells"]:
        for e in c["polys"] + c["paths"] + c["labels"] + c["refs"]:
            if e.get("rep") is not None:
                labels.append("rep_" + e["rep"]["type"])
        for p in c["paths"]:
            labels.append(("simple_" if p["simple"] else "outline_") + p["kind"])
    ctx.stats.note(case, nt, sorted(set(labels)))


def canon(x):
    """order-insensitive canonical form of a cell dump (properties and element order are not promised)"""
    if isinstance(x, dict):
        return {k: canon(v) for k, v in x.items() if k != "ptr"}
    if isinstance(x, list):
        return [canon(v) for v in x]
    if isinstance(x, int) and not isinstance(x, bool):
        return float(x) if abs(x) < 2 ** 53 else x
    return x


def lib_diff(a, b, ref_tol=0.0):
    if abs(a["unit"] - b["unit"]) > 4e-16 * a["unit"] or abs(a["precision"] - b["precision"]) > 4e-16 * a["precision"]:
        return "unit/precision %r/%r -> %r/%r" % (a["unit"], a["precision"], b["unit"], b["precision"])
    ca = {c["name"]: c for c in a["cells"]}
    cb = {c["name"]: c for c in b["cells"]}
    if set(ca) != set(cb):
        return "cell names differ"
    import json
    import repgen

    def expand_refs(refs):
        out = []
        for r in refs:
            rep = r.get("rep")
            if rep is None or rep.get("cols", 1) * rep.get("rows", 1) > 2000:
                out.append(r)
                continue
            for off in repgen.offsets(rep):
                q = dict(r)
                q["rep"] = None
                q["origin"] = [round(r["origin"][0] + off[0], 9), round(r["origin"][1] + off[1], 9)]
                out.append(q)
        return out
    for n in ca:
        ca[n] = dict(ca[n])
        cb[n] = dict(cb[n])
        ca[n]["refs"] = expand_refs(ca[n]["refs"])
        cb[n]["refs"] = expand_refs(cb[n]["refs"])
        for kind in ("polygons", "flexpaths", "robustpaths", "labels", "refs"):
            def key(e):
                e = canon(e)
                if "props" in e:
                    e["props"] = sorted(json.dumps(p, sort_keys=True) for p in e["props"])
                if kind == "flexpaths":
                    e.pop("last_ctrl", None)
                    e.pop("tolerance", None)
                    # consecutive duplicate centre-line points (two samples rounding to one grid point) are dropped
                    # by the next save: same centre line
                    keep = [i for i, p in enumerate(e["spine"]) if i == 0 or p != e["spine"][i - 1]]
                    e["spine"] = [e["spine"][i] for i in keep]
                    for el in e["elements"]:
                        el["hwo"] = [el["hwo"][i] for i in keep if i < len(el["hwo"])]
                return json.dumps(e, sort_keys=True)
            if kind == "refs" and ref_tol > 0:
                # arrays with an off-grid lattice: the AREF corner points round the lattice, so later cycles may move a
                # placement by up to one grid unit; compare placements with that tolerance
                rest = list(cb[n][kind])
                ok = len(rest) == len(ca[n][kind])
                for ea in ca[n][kind]:
                    hit = None
                    for i, eb in enumerate(rest):
                        if all(ea[k] == eb[k] for k in ("type", "target", "xrefl")) and \
                                sorted(json.dumps(p, sort_keys=True) for p in ea["props"]) == sorted(json.dumps(p, sort_keys=True) for p in eb["props"]) and abs(ea["rotation"] - eb["rotation"]) < 1e-12 and \
                                abs(ea["mag"] - eb["mag"]) < 1e-12 * abs(ea["mag"]) and canon(ea["rep"]) == canon(eb["rep"]) and \
                                abs(ea["origin"][0] - eb["origin"][0]) <= ref_tol and abs(ea["origin"][1] - eb["origin"][1]) <= ref_tol:
                            hit = i
                            break
                    if hit is None:
                        ok = False
                        break
                    rest.pop(hit)
                if not ok:
                    return "cell %s: reference placements changed by more than one grid unit" % bytes.fromhex(n).decode("latin-1")
                continue
            sa = sorted(key(e) for e in ca[n][kind])
            sb = sorted(key(e) for e in cb[n][kind])
            if sa != sb:
                for x, y in zip(sa, sb):
                    if x != y:
                        return "cell %s %s: %s -> %s" % (bytes.fromhex(n).decode("latin-1"), kind, x[:300], y[:300])
                return "cell %s: number of %s changed %d -> %d" % (bytes.fromhex(n).decode("latin-1"), kind, len(sa), len(sb))
    return None


def run_worker(ctx):
    n = 1500 if ctx.tier == "quick" else 25000
    v = ctx.hypothesis(check, case_strategy(ctx.tier != "quick"), ctx.share(n), "roundtrip")
    return [v] if v else []


def replay(ctx, test, case, ignore_known=False):
    return check(ctx, case)
