"""C19 - number encodings used by the file formats are lossless."""
import json
import math
import os
import struct
from fractions import Fraction

from hypothesis import strategies as st

from common import Violation, Inconclusive
import oasnum as on

LEVEL = "exploration"
RULE = ("systematic + random values through gdstk's codecs (in-memory OasisStream / tmpfile) against arbitrary-precision "
        "reference codecs: GDSII 8-byte reals (every power of 16 in range with neighbours, log-uniform doubles, raw "
        "unnormalised patterns); OASIS unsigned/signed integers at 2^k-1, 2^k, 2^k+1 for all k, random 64-bit values, every "
        "non-minimal length up to 10 bytes, encodings beyond 64 bits (must set Overflow); 1/2/3/g-deltas in all directions "
        "x boundary magnitudes, both g-delta forms; reals as integers, reciprocals, ratios, float32, doubles incl. the "
        "neighbours of 1/n; point lists (Manhattan both starts, octangular, general, open/closed, repeated vertices, "
        "length 1..50) encoded by gdstk and decoded by the reference and encoded by the reference in every legal type "
        "and decoded by gdstk. A value is non-trivial when it lies within 1 of a 7-bit-group boundary, a power of 16 or "
        "is an alternative (non-canonical) encoding; distinct by (codec, value). Point lists also systematically: every strictly "
        "alternating 4-point list with the first vertex in -3..3 and steps +-1..3, open and closed. Every case runs on the clang build and on a "
        "g++ build of the same sources (order of evaluation and conversions are compiler dependent)")
ASSUMPTIONS = ["reference codecs in pbt/oasnum.py follow DESIGN.md Appendix A", "non-minimal integer encodings are limited to 10 bytes",
               "signed values are limited to |v| <= 2^63-1 (sign-magnitude cannot carry -2^63)"]

OVERFLOW = 8
U64 = (1 << 64) - 1
I63 = (1 << 63) - 1


def ulp(x):
    return math.ulp(abs(x))


def gds_ref_decode(u):
    sign = -1 if u >> 63 else 1
    e = (u >> 56) & 0x7F
    mant = u & ((1 << 56) - 1)
    return sign * Fraction(mant, 1 << 56) * Fraction(16) ** (e - 64)


def boundary_uints():
    vals = set()
    for k in range(0, 65):
        for d in (-1, 0, 1):
            v = (1 << k) + d
            if 0 <= v <= U64:
                vals.add(v)
    return sorted(vals)


def near_boundary(m, nlow):
    """is (m << nlow) within 1 of a 7-bit group boundary"""
    if m == 0:
        return True
    u = m << nlow
    for d in (-1 << nlow, 0, 1 << nlow):
        w = u + d
        if w > 0 and (w.bit_length() - 1) % 7 in (0, 6):
            return True
    return False


# ---------------------------------------------------------------- checks on batches
def check_gdsreal(ctx, case):
    vals = case["values"]
    outs = ctx.run(["num gdsreal %d %s" % (len(vals), " ".join(float(v).hex() for v in vals))], case)
    for v, (enc, dec) in zip(vals, outs[0]["r"]):
        ref = gds_ref_decode(enc)
        single = {"codec": "gdsreal", "values": [v]}
        if v == 0:
            if enc != 0 or dec != 0:
                raise Violation("gdsii real of 0 encoded as %016x" % enc, single, 0, enc)
            continue
        if abs(ref - Fraction(v)) > Fraction(ulp(v)):
            raise Violation("gdsii_real_from_double(%r) = %016x denotes %r: more than 1 ulp away" % (v, enc, float(ref)), single, v, float(ref))
        if dec != float(ref):
            raise Violation("gdsii_real_to_double(%016x) = %r, exact value of the pattern is %r" % (enc, dec, float(ref)), single, float(ref), dec)
        if abs(Fraction(dec) - Fraction(v)) > Fraction(ulp(v)):
            raise Violation("gdsii real round trip of %r gives %r (> 1 ulp)" % (v, dec), single, v, dec)
        nt = False
        m, e = math.frexp(abs(v))
        if (e - 1) % 4 == 0 and (m == 0.5 or m - 0.5 < 1e-15) or (e % 4 == 0 and 1 - m < 1e-15):
            nt = True
        ctx.stats.note("gdsreal:%r" % v, nt, ["gdsreal"])


def check_gdsreal_raw(ctx, case):
    pats = case["values"]
    outs = ctx.run(["num gdsreal_dec %d %s" % (len(pats), " ".join(str(p) for p in pats))], case)
    for p, dec in zip(pats, outs[0]["r"]):
        ref = gds_ref_decode(p)
        want = float(ref)
        if dec != want and not (dec == 0 and want == 0):
            raise Violation("gdsii_real_to_double(%016x) = %r, pattern denotes %r" % (p, dec, want), {"codec": "gdsreal_raw", "values": [p]}, want, dec)
        ctx.stats.note("gdsraw:%d" % p, (p >> 52) & 0xF == 0, ["gdsreal_raw"])


def hexb(b):
    return b.hex() if b else "-"


def check_uint(ctx, case):
    vals = case["values"]
    lines = ["num enc uint %d %s" % (len(vals), " ".join(map(str, vals)))]
    alts = []
    for v in vals:
        base = on.enc_uint(v)
        for pad in range(0, 10 - len(base) + 1):
            alts.append((v, pad, on.enc_uint(v, pad)))
    lines.append("num dec uint %d %s" % (len(alts), " ".join(hexb(a[2]) for a in alts)))
    outs = ctx.run(lines, case)
    for v, h in zip(vals, outs[0]["r"]):
        b = bytes.fromhex(h)
        r = on.Reader(b)
        single = {"codec": "uint", "values": [v]}
        try:
            got = on.dec_uint(r)
        except on.Short:
            raise Violation("oasis_write_unsigned_integer(%d) wrote a truncated encoding %s" % (v, h), single, v, h)
        if got != v or r.p != len(b):
            raise Violation("oasis_write_unsigned_integer(%d) wrote %s which denotes %d" % (v, h, got), single, v, got)
        ctx.stats.note("uint:%d" % v, near_boundary(v, 0), ["uint"])
    for (v, pad, b), (got, err, consumed) in zip(alts, outs[1]["r"]):
        if got != v or err != 0 or consumed != len(b):
            raise Violation("oasis_read_unsigned_integer(%s) = %d err=%d consumed=%d; the encoding (%d superfluous groups) denotes %d"
                            % (b.hex(), got, err, consumed, pad, v), {"codec": "uint", "values": [v]}, v, got)
        if pad:
            ctx.stats.note("uint:%d:pad%d" % (v, pad), True, ["uint_nonminimal"])


def check_uint_overflow(ctx, case):
    vals = case["values"]  # all > U64
    encs = [on.enc_uint(v) for v in vals]
    outs = ctx.run(["num dec uint %d %s" % (len(encs), " ".join(hexb(e) for e in encs))], case)
    for v, e, (got, err, consumed) in zip(vals, encs, outs[0]["r"]):
        if err != OVERFLOW:
            raise Violation("oasis_read_unsigned_integer(%s): the encoding denotes %d > 2^64-1 but error_code=%d value=%d (wrapped, not flagged)"
                            % (e.hex(), v, err, got), {"codec": "uint_overflow", "values": [v]}, "Overflow", [got, err])
        ctx.stats.note("uintovf:%d" % v, True, ["uint_overflow"])


def delta_codec(kind):
    if kind == "int":
        return (lambda v, pad=0: on.enc_sint(v[0], pad)), (lambda r: (on.dec_sint(r),)), 1
    if kind == "2delta":
        return (lambda v, pad=0: on.enc_2delta(v[0], v[1], pad)), on.dec_2delta, 2
    if kind == "3delta":
        return (lambda v, pad=0: on.enc_3delta(v[0], v[1], pad)), on.dec_3delta, 3
    raise ValueError(kind)


def check_delta(ctx, case):
    kind = case["codec"]
    vals = [tuple(v) for v in case["values"]]
    if kind == "gdelta":
        return check_gdelta(ctx, case)
    enc, dec, nlow = delta_codec(kind)
    flat = " ".join(" ".join(map(str, v)) for v in vals)
    lines = ["num enc %s %d %s" % (kind, len(vals), flat)]
    alts = []
    for v in vals:
        base = enc(v)
        for pad in range(0, min(3, 10 - len(base)) + 1):
            if len(enc(v, pad)) <= 10:
                alts.append((v, pad, enc(v, pad)))
        if kind in ("2delta", "3delta") and v == (0,) * len(v):
            for zd in range(1, 4 if kind == "2delta" else 8):
                alts.append((v, 0, on.enc_packed(0, zd, nlow)))
    lines.append("num dec %s %d %s" % (kind, len(alts), " ".join(hexb(a[2]) for a in alts)))
    outs = ctx.run(lines, case)
    for v, h in zip(vals, outs[0]["r"]):
        b = bytes.fromhex(h)
        r = on.Reader(b)
        single = {"codec": kind, "values": [list(v)]}
        try:
            got = tuple(dec(r))
        except on.Short:
            raise Violation("%s encoder wrote a truncated encoding %s for %s" % (kind, h, v), single, v, h)
        if got != v or r.p != len(b):
            raise Violation("%s encoder wrote %s for %s, which denotes %s" % (kind, h, v, got), single, v, got)
        ctx.stats.note("%s:%s" % (kind, v), near_boundary(max(abs(c) for c in v), nlow), [kind])
    for (v, pad, b), res in zip(alts, outs[1]["r"]):
        got = tuple(res[:-2])
        err, consumed = res[-2], res[-1]
        if got != v or err != 0 or consumed != len(b):
            raise Violation("%s decoder on %s = %s err=%d consumed=%d; the encoding denotes %s" % (kind, b.hex(), got, err, consumed, v),
                            {"codec": kind, "values": [list(v)]}, v, got)
        if pad:
            ctx.stats.note("%s:%s:pad%d" % (kind, v, pad), True, [kind + "_nonminimal"])


def check_gdelta(ctx, case):
    vals = [tuple(v) for v in case["values"]]
    flat = " ".join("%d %d" % v for v in vals)
    lines = ["num enc gdelta %d %s" % (len(vals), flat)]
    alts = []
    for v in vals:
        octo = v == (0, 0) or on.dir_of(v[0], v[1], on.DIR3) is not None
        forms = [0, 1] if octo else [1]
        for f in forms:
            for pad in (0, 1):
                # every integer of the encoding stays within 10 bytes (the stated domain of non-minimal forms)
                if f == 0:
                    longest = len(on.enc_packed(max(abs(v[0]), abs(v[1])), 0, 4, pad))
                else:
                    longest = max(len(on.enc_packed(abs(v[0]), 1, 2, pad)), len(on.enc_sint(v[1], pad)))
                if longest <= 10:
                    alts.append((v, f, pad, on.enc_gdelta(v[0], v[1], f, pad)))
    lines.append("num dec gdelta %d %s" % (len(alts), " ".join(hexb(a[3]) for a in alts)))
    outs = ctx.run(lines, case)
    for v, h in zip(vals, outs[0]["r"]):
        b = bytes.fromhex(h)
        r = on.Reader(b)
        single = {"codec": "gdelta", "values": [list(v)]}
        try:
            got = on.dec_gdelta(r)
        except on.Short:
            raise Violation("g-delta encoder wrote a truncated encoding %s for %s" % (h, v), single, v, h)
        if got != v or r.p != len(b):
            raise Violation("g-delta encoder wrote %s for %s, which denotes %s" % (h, v, got), single, v, got)
        ctx.stats.note("gdelta:%s" % (v,), near_boundary(abs(v[0]), 2) or near_boundary(abs(v[1]), 1) or near_boundary(max(abs(v[0]), abs(v[1])), 4), ["gdelta"])
    for (v, f, pad, b), res in zip(alts, outs[1]["r"]):
        got = (res[0], res[1])
        if got != v or res[2] != 0 or res[3] != len(b):
            raise Violation("g-delta decoder on %s (form %d) = %s err=%d consumed=%d; denotes %s" % (b.hex(), f, got, res[2], res[3], v),
                            {"codec": "gdelta", "values": [list(v)]}, v, got)
        ctx.stats.note("gdelta:%s:f%d:p%d" % (v, f, pad), True, ["gdelta_form%d" % f])


def check_int_overflow(ctx, case):
    kind = case["codec"][:-len("_overflow")]
    vals = [tuple(v) for v in case["values"]]
    if kind == "gdelta":
        encs = [on.enc_gdelta(v[0], v[1]) for v in vals]
    else:
        enc, _, _ = delta_codec(kind)
        encs = [enc(v) for v in vals]
    outs = ctx.run(["num dec %s %d %s" % (kind, len(encs), " ".join(hexb(e) for e in encs))], case)
    for v, e, res in zip(vals, encs, outs[0]["r"]):
        if res[-2] != OVERFLOW:
            raise Violation("%s decoder on %s: magnitude needs more than 63 bits (%s) but error_code=%d, value %s" % (kind, e.hex(), v, res[-2], res[:-2]),
                            {"codec": case["codec"], "values": [list(v)]}, "Overflow", res)
        ctx.stats.note("%sovf:%s" % (kind, v), True, [kind + "_overflow"])


def check_real_enc(ctx, case):
    vals = case["values"]
    outs = ctx.run(["num enc real %d %s" % (len(vals), " ".join(float(v).hex() for v in vals)),
                    "num dec real %d %s" % (len(vals), "PLACEHOLDER")][:1], case)
    encs = outs[0]["r"]
    outs2 = ctx.run(["num dec real %d %s" % (len(vals), " ".join(encs))], case)
    for v, h, (dec, err, consumed) in zip(vals, encs, outs2[0]["r"]):
        b = bytes.fromhex(h)
        r = on.Reader(b)
        single = {"codec": "real", "values": [v]}
        try:
            ref = on.dec_real(r)
        except (on.Short, ZeroDivisionError, ValueError):
            raise Violation("oasis_write_real(%r) wrote an undecodable encoding %s" % (v, h), single, v, h)
        # lossless at the level the decoder works at: the denoted rational, correctly rounded, is the double again
        if float(ref) != v or r.p != len(b):
            raise Violation("oasis_write_real(%r) wrote %s (real type %d), which denotes %r = %s: not the same value"
                            % (v, h, b[0], float(ref), ref), single, v, float(ref))
        if dec != v or err != 0 or consumed != len(b):
            raise Violation("real round trip of %r through gdstk gives %r (err %d)" % (v, dec, err), single, v, dec)
        nt = b[0] != 7
        if v != 0 and 1e-300 < abs(v) < 1e300:
            inv = 1.0 / v
            nt = nt or (abs(inv) < 2.0 ** 63 and abs(inv - round(inv)) < 1e-9 * abs(inv))
        ctx.stats.note("real:%r" % v, nt, ["real_type%d" % b[0]])


def check_real_dec(ctx, case):
    items = case["values"]  # [kind, a, b]
    encs = []
    wants = []
    for kind, a, b in items:
        if kind in (6,):
            a = struct.unpack("<f", struct.pack("<f", a))[0]
        e = on.enc_real(kind, a, b)
        encs.append(e)
        wants.append(float(on.dec_real(on.Reader(e))))
    outs = ctx.run(["num dec real %d %s" % (len(encs), " ".join(hexb(e) for e in encs))], case)
    for it, e, w, (dec, err, consumed) in zip(items, encs, wants, outs[0]["r"]):
        if dec != w or err != 0 or consumed != len(e):
            raise Violation("oasis_read_real on %s (type %d) = %r err=%d consumed=%d; the encoding denotes %r" % (e.hex(), it[0], dec, err, consumed, w),
                            {"codec": "real_dec", "values": [it]}, w, dec)
        ctx.stats.note("realdec:%s" % (it,), it[0] != 7, ["real_dec_type%d" % it[0]])


def check_plist(ctx, case):
    pts = [tuple(p) for p in case["points"]]
    closed = case["closed"]
    lines = ["num plist_enc %d %d %s" % (1 if closed else 0, len(pts), " ".join("%d %d" % p for p in pts))]
    deltas = [(b[0] - a[0], b[1] - a[1]) for a, b in zip(pts, pts[1:])]
    rel = [(p[0] - pts[0][0], p[1] - pts[0][1]) for p in pts[1:]]
    # reference encodings in every legal type
    alts = []
    for t in on.plist_types_for(deltas):
        for gform in ((None, 1) if t in (4, 5) else (None,)):
            alts.append((t, on.enc_plist(t, deltas, 0, gform)))
    alts.append((4, on.enc_plist(4, deltas, 1)))
    # types 0/1: strictly alternating axis-parallel deltas
    def alternates(ds, first_h):
        h = first_h
        for dx, dy in ds:
            if (h and dy != 0) or (not h and dx != 0):
                return False
            h = not h
        return True
    man_ok = False
    if closed and len(pts) >= 4 and len(pts) % 2 == 0:
        closing = (pts[0][0] - pts[-1][0], pts[0][1] - pts[-1][1])
        for t, fh in ((0, True), (1, False)):
            if alternates(deltas + [closing], fh):
                alts.append((t, on.enc_plist(t, deltas[:-1])))
                man_ok = True
    elif not closed:
        for t, fh in ((0, True), (1, False)):
            if deltas and alternates(deltas, fh):
                alts.append((t, on.enc_plist(t, deltas)))
                man_ok = True
    for t, e in alts:
        lines.append("num plist_dec %d 1 %s" % (1 if closed else 0, hexb(e)))
    outs = ctx.run(lines, case)
    h = outs[0]["bytes"]
    b = bytes.fromhex(h)
    if len(pts) >= 1:
        r = on.Reader(b)
        try:
            t, got = on.dec_plist(r, closed)
        except (on.Short, ValueError, KeyError):
            raise Violation("oasis_write_point_list wrote an undecodable list %s" % h, case, rel, h)
        if got != rel or r.p != len(b):
            raise Violation("oasis_write_point_list chose type %d and wrote %s, which denotes %s" % (t, h, got), case, rel, got)
        ctx.stats.count("plist_written_type%d" % t)
    for (t, e), o in zip(alts, outs[1:]):
        got = [(int(x), int(y)) for x, y in o["pts"]]
        if got != rel or o["err"] != 0 or o["consumed"] != len(e):
            raise Violation("oasis_read_point_list on a type %d list %s gives %s (err %d); it denotes %s" % (t, e.hex(), got, o["err"], rel), case, rel, got)
    ctx.stats.note(case, len(pts) >= 3 and (man_ok or len(set(pts)) < len(pts) or closed),
                   ["plist", "plist_closed" if closed else "plist_open", "plist_manhattan01" if man_ok else "plist_other"])


CHECKS = {"gdsreal": check_gdsreal, "gdsreal_raw": check_gdsreal_raw, "uint": check_uint, "uint_overflow": check_uint_overflow,
          "int": check_delta, "2delta": check_delta, "3delta": check_delta, "gdelta": check_delta,
          "int_overflow": check_int_overflow, "2delta_overflow": check_int_overflow, "3delta_overflow": check_int_overflow,
          "gdelta_overflow": check_int_overflow, "real": check_real_enc, "real_dec": check_real_dec}


def check_case(ctx, case):
    if "points" in case:
        return check_plist(ctx, case)
    return CHECKS[case["codec"]](ctx, case)


# ---------------------------------------------------------------- value sets
def systematic(ctx):
    """list of (codec, values) batches; partitioned across workers by batch index"""
    batches = []
    # GDSII reals: powers of 16 and neighbours
    vals = [0.0]
    for e in range(-64, 63):
        p = 16.0 ** e
        for v in (p, math.nextafter(p, math.inf), math.nextafter(math.nextafter(p, math.inf), math.inf),
                  math.nextafter(p, 0), math.nextafter(math.nextafter(p, 0), 0)):
            if 16.0 ** -64 <= v < 16.0 ** 63:
                vals += [v, -v]
    top = math.nextafter(16.0 ** 63, 0)
    vals += [top, -top, 1.0, -1.0, 1e-9, 1e-6, 1e-3, 0.1, 360.0, 90.0, 1e-12]
    batches.append(("gdsreal", vals))
    bu = boundary_uints()
    batches.append(("uint", bu))
    batches.append(("uint_overflow", [(1 << 64), (1 << 64) + 1, (1 << 65), (1 << 69) - 1, (1 << 70) - 1, 3 << 63, (1 << 64) + (1 << 63)]))
    mags = sorted({m for m in bu if m <= I63})
    batches.append(("int", [[s * m] for m in mags for s in (1, -1)]))
    batches.append(("int_overflow", [[s * m] for m in ((1 << 63), (1 << 63) + 1, (1 << 64), (1 << 66) + 5) for s in (1, -1)]))
    for kind, table in (("2delta", on.DIR2), ("3delta", on.DIR3)):
        vs = [[0, 0]]
        for m in mags:
            if m == 0:
                continue
            for dx, dy in table.values():
                vs.append([dx * m, dy * m])
        for i in range(0, len(vs), 400):
            batches.append((kind, vs[i:i + 400]))
        batches.append((kind + "_overflow", [[dx * m, dy * m] for m in ((1 << 63), (1 << 64) + 3) for dx, dy in table.values()]))
    vs = [[0, 0]]
    small = [1, 2, 7, 8, 15, 16, 31, 32, 63, 64, 127, 128, 129, (1 << 62) + 1, I63, I63 - 1, (1 << 56), (1 << 56) - 1, (1 << 59), (1 << 60) - 1]
    for m in mags:
        if m == 0:
            continue
        for dx, dy in on.DIR3.values():
            vs.append([dx * m, dy * m])
    for a in small:
        for b in small[:12]:
            for sx in (1, -1):
                for sy in (1, -1):
                    vs.append([sx * a, sy * b])
                    vs.append([sx * b, sy * a])
    for i in range(0, len(vs), 400):
        batches.append(("gdelta", vs[i:i + 400]))
    batches.append(("gdelta_overflow", [[(1 << 63), 5], [7, -(1 << 63)], [-(1 << 64), 1], [(1 << 63), (1 << 63)], [0, (1 << 63)], [-(1 << 63), 0]]))
    # reals
    rv = [0.0, 1.0, -1.0, 0.5, -0.5, 0.25, 1e-3, 1e-6, 0.1, 2.0 ** 52, 2.0 ** 53, 2.0 ** 63, -2.0 ** 63, 2.0 ** 64, 1.8e19, 1e300, 1e-300,
          5e-324, 3.0, 1e15, 123456789.0, 0.3, 2.0 / 3.0]
    for n in list(range(2, 400)) + [1000, 1024, 4095, 10 ** 6, 10 ** 9, 2 ** 31, 2 ** 52 - 1]:
        x = 1.0 / n
        rv += [x, -x, math.nextafter(x, 1), math.nextafter(x, 0), -math.nextafter(x, 1), math.nextafter(math.nextafter(x, 1), 1)]
    for i in range(0, len(rv), 300):
        batches.append(("real", rv[i:i + 300]))
    rd = []
    for a in [0, 1, 2, 127, 128, 255, 16383, 16384, 2 ** 31, 2 ** 52, 2 ** 53 - 1]:
        rd += [[0, a, 1], [1, a, 1]]
        if a:
            rd += [[2, a, 1], [3, a, 1]]
        for b in (1, 3, 7, 128, 1000, 2 ** 40 + 1):
            rd += [[4, a, b], [5, a, b]]
    for f in (0.0, 1.5, -2.25, 0.1, 3.4e38, 1e-45, 16777217.0):
        rd += [[6, f, 1], [7, f, 1], [7, -f, 1]]
    batches.append(("real_dec", rd))
    return batches


# ---------------------------------------------------------------- random (Hypothesis)
def lognormal_doubles():
    return st.tuples(st.floats(1.0, 16.0, exclude_max=True), st.integers(-64, 62), st.booleans()).map(
        lambda t: (-1 if t[2] else 1) * t[0] * 16.0 ** t[1]).filter(lambda v: 16.0 ** -64 <= abs(v) < 16.0 ** 63)


sint = st.one_of(st.integers(-I63, I63), st.integers(-300, 300),
                 st.tuples(st.integers(0, 62), st.integers(-2, 2), st.booleans()).map(lambda t: max(-I63, min(I63, ((1 << t[0]) + t[1]) * (-1 if t[2] else 1)))))
uint = st.one_of(st.integers(0, U64), st.integers(0, 300),
                 st.tuples(st.integers(0, 64), st.integers(-2, 2)).map(lambda t: max(0, min(U64, (1 << t[0]) + t[1]))))


@st.composite
def plist_case(draw):
    mode = draw(st.sampled_from(["manh", "manh_free", "oct", "gen", "mixed"]))
    n = draw(st.integers(1, 50))
    closed = draw(st.booleans())
    step = st.one_of(st.integers(-5, 5), st.integers(-70, 70), st.integers(-20000, 20000), st.integers(-2 ** 40, 2 ** 40))
    x, y = draw(st.integers(-1000, 1000)), draw(st.integers(-1000, 1000))
    pts = [[x, y]]
    horiz = draw(st.booleans())
    for i in range(n - 1):
        m = mode if mode != "mixed" else draw(st.sampled_from(["manh_free", "oct", "gen"]))
        d = draw(step)
        if m == "manh":
            if horiz:
                x += d if d else 1
            else:
                y += d if d else 1
            horiz = not horiz
        elif m == "manh_free":
            if draw(st.booleans()):
                x += d
            else:
                y += d
        elif m == "oct":
            dx, dy = draw(st.sampled_from(list(on.DIR3.values())))
            x += dx * abs(d)
            y += dy * abs(d)
        else:
            x += d
            y += draw(step)
        pts.append([x, y])
    if mode == "manh" and closed and len(pts) >= 4 and len(pts) % 2 == 0:
        # make the closing edge axis parallel and alternating: last vertex shares the proper coordinate with the first
        if (pts[1][1] == pts[0][1]):  # first edge horizontal -> closing edge vertical
            pts[-1][0] = pts[0][0]
            if len(pts) >= 2:
                pts[-2][0] = pts[0][0] if pts[-2][1] != pts[-1][1] and False else pts[-2][0]
        else:
            pts[-1][1] = pts[0][1]
    return {"points": pts, "closed": closed}


TARGETS = ("gdstk_driver", "gdstk_driver_gcc", "fuzz_oasis_numbers")


# ---------------------------------------------------------------- coverage-guided stage (libFuzzer)
# driver/fuzz_oasis_numbers.cpp compiles src/oasis.cpp into a libFuzzer target whose oracle is a second set of reference codecs
# (unsigned __int128 arithmetic, written in the target). Each worker runs one campaign (its own PRNG value, fresh corpus seeded with
# a few valid encodings); a crash-* artifact (oracle trap or sanitizer report) is minimised by libFuzzer and becomes an ordinary
# replay case {"fuzz_hex": ...}. slow-unit / timeout / oom artifacts are load noise and are ignored.
FUZZ_SEEDS = ["0000", "00ffffffffffffffffff01", "017f", "01ffffffffffffffffff01", "0206", "03fd7f", "04f2ffffffffffffff3f", "0403800104",
              "050005", "05037b", "0504020d", "0507000000000000f03f", "0506000080bf", "06" + "000000000000d03f", "06" + "555555555555d53f",
              "07" + "ff" * 7 + "7f" + "01" + "00" * 7 + "0000"]


def fuzz_exe(ctx):
    return os.path.join(ctx.build_dir, "fuzz_oasis_numbers")


def fuzz_run_file(ctx, raw):
    """one input through the fuzz target; returns None when it passes, else the oracle / sanitizer message"""
    import subprocess
    p = ctx.path("fuzz_input_%d.bin" % ctx.worker)
    with open(p, "wb") as fh:
        fh.write(raw)
    env = dict(os.environ, ASAN_OPTIONS="detect_leaks=0:abort_on_error=0", UBSAN_OPTIONS="print_stacktrace=0:halt_on_error=1")
    env.pop("FUZZ_STATS", None)
    try:
        r = subprocess.run([fuzz_exe(ctx), p], stdout=subprocess.PIPE, stderr=subprocess.STDOUT, env=env, timeout=120)
    except subprocess.TimeoutExpired:
        raise Inconclusive()
    if r.returncode == 0:
        return None
    out = r.stdout.decode("utf-8", "replace")
    for line in out.splitlines():
        if line.startswith("ORACLE:") or "runtime error:" in line or "ERROR: AddressSanitizer" in line:
            return line.split("; input=")[0][:300]
    return "fuzz target exit %d: %s" % (r.returncode, out[-300:])


def check_fuzz(ctx, case):
    raw = bytes.fromhex(case["fuzz_hex"])
    msg = fuzz_run_file(ctx, raw)
    ctx.stats.count("fuzz_replayed_inputs")
    if msg:
        raise Violation("fuzz_oasis_numbers: " + msg, case, "the reference codec's value / NoError", msg)


def fuzz_stage(ctx):
    import subprocess, glob, shutil
    q = ctx.tier == "quick"
    runs = 150000 if q else 12000000
    cdir = ctx.path("fuzz_corpus")
    adir = ctx.path("fuzz_artifacts")
    shutil.rmtree(cdir, ignore_errors=True)
    shutil.rmtree(adir, ignore_errors=True)
    os.makedirs(cdir)
    os.makedirs(adir)
    # odd workers start from a few valid encodings, even workers from an empty corpus (the two behave differently)
    if ctx.worker % 2 == 1:
        for i, h in enumerate(FUZZ_SEEDS):
            with open(os.path.join(cdir, "seed_%02d" % i), "wb") as fh:
                fh.write(bytes.fromhex(h))
    stats = ctx.path("fuzz_stats.json")
    env = dict(os.environ, FUZZ_STATS=stats, ASAN_OPTIONS="detect_leaks=0:abort_on_error=0", UBSAN_OPTIONS="print_stacktrace=0:halt_on_error=1")
    cmd = [fuzz_exe(ctx), "-runs=%d" % runs, "-seed=%d" % (ctx.seed * 1000 + ctx.worker + 1), "-max_len=48", "-len_control=0",
           "-artifact_prefix=" + adir + "/", "-print_final_stats=1", "-timeout=60", cdir]
    try:
        r = subprocess.run(cmd, stdout=subprocess.PIPE, stderr=subprocess.STDOUT, env=env, timeout=3600)
        out = r.stdout.decode("utf-8", "replace")
    except subprocess.TimeoutExpired:
        ctx.stats.count("fuzz_campaigns_inconclusive")
        return None
    try:
        with open(stats) as fh:
            fs = json.load(fh)
        ctx.stats.count("fuzz_executions", fs["executions"])
        ctx.stats.count("fuzz_nontrivial_executions", fs["nontrivial"])
        ctx.stats.count("fuzz_overflow_encodings", fs["overflow_cases"])
        ctx.stats.count("fuzz_values_reencoded", fs["reencoded"])
        ctx.stats.count("fuzz_incomplete_encodings_skipped", fs["skipped_incomplete"])
        ctx.stats.count("fuzz_nonfinite_reals_not_judged", fs.get("nonfinite_not_judged", 0))
        for i, n in enumerate(fs["by_selector"]):
            ctx.stats.count("fuzz_selector_%d_%s" % (i, ("uint", "int", "2delta", "3delta", "gdelta", "real_dec", "real_enc", "int_enc")[i]), n)
        if ctx.worker < 2:
            ctx.stats.extra.setdefault("fuzz_samples", "")
            ctx.stats.extra["fuzz_samples"] += " ".join(fs["samples"]) + " "
    except (OSError, ValueError):
        pass
    import re as _re
    m = _re.findall(r"cov: (\d+) ft: (\d+) corp: (\d+)", out)
    if m:
        ctx.stats.maximum("fuzz_edges_covered", int(m[-1][0]))
        ctx.stats.maximum("fuzz_features", int(m[-1][1]))
        ctx.stats.maximum("fuzz_corpus_units", int(m[-1][2]))
    ctx.stats.count("fuzz_campaigns")
    crashes = sorted(glob.glob(os.path.join(adir, "crash-*")) + glob.glob(os.path.join(adir, "leak-*")))
    if not crashes:
        if r.returncode != 0 and not glob.glob(os.path.join(adir, "*")):
            ctx.stats.count("fuzz_campaigns_inconclusive")
        return None
    with open(crashes[0], "rb") as fh:
        raw = fh.read()
    # shrink with libFuzzer's own minimiser (bounded by executions, not by time)
    mpath = ctx.path("fuzz_min.bin")
    try:
        subprocess.run([fuzz_exe(ctx), "-minimize_crash=1", "-runs=20000", "-exact_artifact_path=" + mpath, crashes[0]],
                       stdout=subprocess.DEVNULL, stderr=subprocess.DEVNULL, env=env, timeout=300)
        if os.path.exists(mpath):
            with open(mpath, "rb") as fh:
                small = fh.read()
            if small and fuzz_run_file(ctx, small):
                raw = small
    except (subprocess.TimeoutExpired, OSError):
        pass
    msg = fuzz_run_file(ctx, raw)
    if not msg:
        ctx.stats.count("flaky_not_reproduced")
        return None
    v = Violation("fuzz_oasis_numbers: " + msg, {"fuzz_hex": raw.hex()}, "the reference codec's value / NoError", msg)
    v.test = "fuzz"
    return v


def check_both(ctx, case):
    if "fuzz_hex" in case:
        return check_fuzz(ctx, case)
    _check_both(ctx, case)


def _check_both(ctx, case):
    """the codecs are header-level arithmetic whose meaning may depend on the compiler (order of evaluation of arguments,
    conversions): every case is run on the clang build and on a g++ build of the same sources (the repository's own compiler)"""
    check_case(ctx, case)
    if getattr(ctx, "_gcc", None) is None:
        from common import Driver
        ctx._gcc = Driver(ctx.build_dir, ctx.tmpdir, watchdog=ctx.driver.watchdog, exe_name="gdstk_driver_gcc")
    main = ctx.driver
    ctx.driver = ctx._gcc
    try:
        check_case(ctx, case)
    finally:
        ctx.driver = main


def run_worker(ctx):
    vs = []
    q = ctx.tier == "quick"
    for i, (codec, vals) in enumerate(systematic(ctx)):
        if i % ctx.nworkers != ctx.worker:
            continue
        try:
            check_both(ctx, {"codec": codec, "values": vals})
        except Violation as v:
            v.test = codec
            vs.append(v)
    # systematic small closed/open point lists: every strictly alternating horizontal/vertical list of 4 points with the first
    # vertex in -3..3 and steps in {+-1, +-2, +-3} (both orientations), i.e. every coincidence between a vertex coordinate and a
    # step that a compact-form decision could confuse; the closing edge is whatever it turns out to be (mostly slanted)
    import itertools
    stp = (-3, -2, -1, 1, 2, 3)
    for i, (x0, y0, a, b, c, hfirst, closed) in enumerate(itertools.product(range(-3, 4), range(-3, 4), stp, stp, stp, (True, False), (True, False))):
        if i % ctx.nworkers != ctx.worker or (not q and False):
            continue
        if q and (i // ctx.nworkers) % 3 != ctx.seed % 3:
            continue        # the quick tier takes a third of them, chosen by the seed
        pts = [[x0, y0]]
        for k, d in enumerate((a, b, c)):
            horiz = hfirst if k % 2 == 0 else not hfirst
            pts.append([pts[-1][0] + d, pts[-1][1]] if horiz else [pts[-1][0], pts[-1][1] + d])
        try:
            check_both(ctx, {"points": pts, "closed": closed})
        except Violation as v:
            v.test = "plist_small"
            vs.append(v)
            break
    plan = [
        ("gdsreal", st.lists(lognormal_doubles(), min_size=1, max_size=200).map(lambda v: {"codec": "gdsreal", "values": v}), 1200 if q else 30000),
        ("gdsreal_raw", st.lists(st.integers(0, U64), min_size=1, max_size=100).map(lambda v: {"codec": "gdsreal_raw", "values": v}), 400 if q else 8000),
        ("uint", st.lists(uint, min_size=1, max_size=60).map(lambda v: {"codec": "uint", "values": v}), 600 if q else 15000),
        ("int", st.lists(sint.map(lambda x: [x]), min_size=1, max_size=60).map(lambda v: {"codec": "int", "values": v}), 600 if q else 15000),
        ("gdelta", st.lists(st.tuples(sint, sint).map(list), min_size=1, max_size=60).map(lambda v: {"codec": "gdelta", "values": v}), 600 if q else 15000),
        ("real", st.lists(st.one_of(st.floats(allow_nan=False, allow_infinity=False), st.integers(-10 ** 6, 10 ** 6).map(float),
                                    st.integers(1, 10 ** 7).map(lambda n: 1.0 / n),
                                    st.tuples(st.integers(1, 10 ** 7), st.integers(-3, 3)).map(lambda t: math.nextafter(1.0 / t[0], 1) if t[1] > 0 else math.nextafter(1.0 / t[0], 0) if t[1] < 0 else 1.0 / t[0])),
                          min_size=1, max_size=80).map(lambda v: {"codec": "real", "values": v}), 600 if q else 15000),
        ("real_dec", st.lists(st.one_of(st.tuples(st.sampled_from([0, 1, 2, 3]), st.integers(1, 2 ** 53 - 1), st.just(1)),
                                        st.tuples(st.sampled_from([4, 5]), st.integers(0, 2 ** 53 - 1), st.integers(1, 2 ** 53 - 1)),
                                        st.tuples(st.just(6), st.floats(width=32, allow_nan=False, allow_infinity=False), st.just(1)),
                                        st.tuples(st.just(7), st.floats(allow_nan=False, allow_infinity=False), st.just(1))).map(list),
                              min_size=1, max_size=60).map(lambda v: {"codec": "real_dec", "values": v}), 400 if q else 10000),
        ("plist", plist_case(), 3000 if q else 60000),
    ]
    for name, strat, total in plan:
        v = ctx.hypothesis(check_both, strat, ctx.share(total), name)
        if v:
            vs.append(v)
    v = fuzz_stage(ctx)
    if v:
        vs.append(v)
    return vs


def replay(ctx, test, case, ignore_known=False):
    return check_both(ctx, case)
