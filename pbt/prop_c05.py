"""C05 - boolean operations compute the set-theoretic result."""
import math

from hypothesis import strategies as st

from common import Violation, fl
import geomkit as gk

LEVEL = "exploration"
RULE = ("Hypothesis cases: two groups of 1-4 simple integer-grid polygons (star-shaped, histogram, comb, convex, rectangle, "
        "triangle; either orientation; vertices snapped to a coarse sub-lattice with high probability to force shared "
        "edges/vertices/collinear overlaps/nesting), polygon size from 64 to 2^45 grid units, centre offsets to 2^48, "
        "scaling from {1,10,1e3,1e6}; plus a systematic family judged without the K1 classifier (every L-shape x rectangle pair of a "
        "4 x 4 lattice, both operand orders; half of them per quick run); in two cases of five a small polygon is put inside the first polygon of A, at its centre or "
        "next to one of its convex corners (inside a tooth or tip: holes in separately swept lobes); optionally the first operand is the output of an earlier operation (keyholes). All "
        "four operations are run; oracle = exact winding-number membership at deliberately placed sample points that are "
        ">= 2 grid units from every input edge (in_result == op(in_A, in_B)), no point covered by two output polygons or "
        "with |winding| > 1, and the area identities within perimeter x 1 grid unit. Non-trivial: bounding boxes "
        "intersect and decidable samples exist in at least two of A-B, B-A, A&B (or the case has a snapped coincidence); "
        "distinct by case hash")
ASSUMPTIONS = ["scaled coordinates are kept below 2^50 so that the doubles gdstk returns are exact integers/scaling",
               "errors smaller than the 2-grid-unit guard band are invisible (the statement excludes the rounding grid)"]

OPS = ["or", "and", "xor", "not"]


@st.composite
def case_strategy(draw):
    size = draw(st.sampled_from([64, 64, 64, 1000, 1 << 20, 1 << 33, 1 << 45]))
    snap = draw(st.sampled_from([1, 2, 4, 8, 8, 16])) * max(1, size // 64)
    off = draw(st.sampled_from([0, 0, 1 << 16, 1 << 31, 1 << 40, 1 << 48]))
    ox, oy = draw(st.sampled_from([-1, 1])) * off, draw(st.sampled_from([-1, 0, 1])) * off
    scaling = draw(st.sampled_from([1.0, 10.0, 1e3, 1e6]))

    def group(n):
        g = []
        for _ in range(n):
            c = (draw(st.integers(-size // 2, size // 2)), draw(st.integers(-size // 2, size // 2)))
            g.append(draw(gk.simple_polygon(size=size, snap=snap, center=c)))
        return g
    A = group(draw(st.integers(1, 4)))
    B = group(draw(st.integers(1, 4)))
    nmode = draw(st.integers(0, 4))
    nested = nmode <= 1
    if nmode == 0:
        # put a small polygon strictly inside the first polygon of A (hole-producing configurations)
        bb = gk.bbox([A[0]])
        cx, cy = (bb[0] + bb[2]) // 2, (bb[1] + bb[3]) // 2
        s = max(4, min(bb[2] - bb[0], bb[3] - bb[1]) // 8)
        B[0] = draw(gk.simple_polygon(size=s, snap=max(1, snap // 8), center=(cx, cy)))
    elif nmode == 1:
        # ... or inside one of its lobes (a tooth of a comb, a tip of a star): a small rectangle next to a convex corner, so that
        # the hole lies in a part of the outline that the sweep meets as a separate local extremum
        P = A[0]
        i = draw(st.integers(0, len(P) - 1))
        a, v, b = P[i - 1], P[i], P[(i + 1) % len(P)]
        cx, cy = (a[0] + v[0] + b[0]) // 3, (a[1] + v[1] + b[1]) // 3
        s = max(1, int(min(math.hypot(a[0] - v[0], a[1] - v[1]), math.hypot(b[0] - v[0], b[1] - v[1])) // 8))
        rect = [[cx - s, cy - s], [cx + s, cy - s], [cx + s, cy + s], [cx - s, cy + s]]
        if all(gk.winding([tuple(q) for q in P], x, y) != 0 and gk.far_from_edges(x, y, gk.edges_of([[tuple(q) for q in P]]), 1) for x, y in rect):
            B[0] = rect
        else:
            nested = False
    empty = draw(st.integers(0, 11))
    if empty == 0 and not nested:
        A = []          # an empty operand is the empty set: OR/XOR give the other group, AND/NOT nothing (or A itself)
    elif empty == 1 and not nested:
        B = []
    feedback = draw(st.sampled_from([None, None, None, "not", "xor", "or"]))
    D = group(draw(st.integers(1, 3))) if feedback else []
    return {"scaling": scaling, "offset": [ox, oy], "A": A, "B": B, "feedback": feedback, "D": D}


def poly_cmd(name, poly, off, scaling):
    return "poly new %s 0 0 %d %s" % (name, len(poly), " ".join(fl((c + o) / scaling) for p in poly for c, o in zip(p, off)))


def region_area2(polys):
    return sum(abs(gk.area2(p)) for p in polys)


def has_touching(polys):
    """some vertex of one polygon lies on the boundary (edge or vertex) of another polygon (exact)"""
    for i, p in enumerate(polys):
        for j, q in enumerate(polys):
            if i == j:
                continue
            n = len(q)
            for (vx, vy) in p:
                for k in range(n):
                    ax, ay = q[k]
                    bx, by = q[(k + 1) % n]
                    if (bx - ax) * (vy - ay) - (by - ay) * (vx - ax) == 0 and min(ax, bx) <= vx <= max(ax, bx) and \
                            min(ay, by) <= vy <= max(ay, by):
                        return True
    return False


def tree_inconsistent(ctx, build_lines, op, scaling, l1, l2):
    """known finding C05-K1 classifier: Clipper's own PolyTree for these operands (driver calls external/clipper directly)
    has a node whose orientation contradicts its hole state, a child with a vertex strictly outside its parent, or a
    contour that passes through the same vertex twice (non strictly-simple output)."""
    clip = {"ua": ("or", l1, "0"), "ub": ("or", l2, "0")}.get(op, (op, l1, l2))
    outs = ctx.run(build_lines + ["geom clipper_tree %s %s %s %s" % (clip[0], fl(scaling), clip[1], clip[2])])
    r = outs[-1]
    return r["bad_orientation"] > 0 or r["child_outside_parent"] > 0 or r["self_touching_contours"] > 0


def judge_op(ctx, case, lines, op, r, scaling, off, samples, memb, areas):
    if r["err"] != 0:
        raise Violation("boolean %s returned error code %d" % (op, r["err"]), case, 0, r["err"], lines)
    rp, worst = gk.to_int_polys(r["result"], scaling)
    rp = [[(x - off[0], y - off[1]) for x, y in p] for p in rp]
    if worst > 0.3:
        raise Violation("boolean %s returned an off-grid vertex (residue %g grid units)" % (op, worst), case, 0, worst, lines)
    areas[op] = region_area2(rp) / 2.0
    areas[op + "_per"] = sum(gk.perimeter(p) for p in rp)
    if op in ("ua", "ub"):
        return
    f = {"or": lambda a, b: a or b, "and": lambda a, b: a and b, "xor": lambda a, b: a != b, "not": lambda a, b: a and not b}[op]
    # samples must also stay off the *output* edges (outputs are inputs +- rounding, so nearly always true)
    oedges = gk.edges_of(rp)
    signs = [set() for _ in rp]
    for (x, y), (ia, ib) in zip(samples, memb):
        if not gk.far_from_edges(x, y, oedges, 1):
            ctx.stats.count("skipped_near_output_edge")
            continue
        want = f(ia, ib)
        ws = [gk.winding(p, x, y) if len(p) >= 3 else 0 for p in rp]
        for k, w in enumerate(ws):
            if w:
                signs[k].add(1 if w > 0 else -1)
        cover = sum(1 for w in ws if w != 0)
        if (cover > 0) != want:
            raise Violation("%s: point %s (grid units) is %s the result but in_A=%s in_B=%s" %
                            (op.upper(), (x + off[0], y + off[1]), "in" if cover else "not in", ia, ib), case, want, cover > 0, lines)
        if cover > 1:
            raise Violation("%s: point %s is covered by %d output polygons (overlap)" % (op.upper(), (x + off[0], y + off[1]), cover),
                            case, 1, cover, lines)
        if any(abs(w) > 1 for w in ws):
            raise Violation("%s: an output polygon winds %s times around %s" % (op.upper(), ws, (x + off[0], y + off[1])), case, 1, ws, lines)
    if any(len(sg) == 2 for sg in signs):
        # lobes of opposite orientation: membership is right under non-zero winding but Polygon::area() and every
        # even-odd consumer see a different region
        raise Violation("%s: an output polygon has lobes of opposite orientation (a separate piece was linked as a hole)" % op.upper(),
                        case, None, r["result"], lines)


def check(ctx, case, strict=False):
    strict = strict or bool(case.get("strict"))      # systematic small configurations are judged without the K1 classifier
    scaling = case["scaling"]
    off = case["offset"]
    A, B, D = case["A"], case["B"], case["D"]
    fb = case["feedback"]
    lines = []
    for i, p in enumerate(A):
        lines.append(poly_cmd("a%d" % i, p, off, scaling))
    for i, p in enumerate(B):
        lines.append(poly_cmd("b%d" % i, p, off, scaling))
    for i, p in enumerate(D):
        lines.append(poly_cmd("d%d" % i, p, off, scaling))
    la = "%d %s" % (len(A), " ".join("a%d" % i for i in range(len(A))))
    lb = "%d %s" % (len(B), " ".join("b%d" % i for i in range(len(B))))
    ld = "%d %s" % (len(D), " ".join("d%d" % i for i in range(len(D))))
    if fb:
        lines.append("geom boolean %s %s x %s %s" % (fb, fl(scaling), la, lb))
    outs0 = ctx.run(lines, case) if fb else None
    first_polys = second_polys = None
    if fb:
        # the first operand of the judged operations is the (already judged elsewhere) output X; its membership is
        # taken from the polygons gdstk returned, the second operand is D
        X = outs0[-1]["result"]
        if outs0[-1]["err"] == 1 and not strict and "C05-K1" in ctx.known_ids and \
                tree_inconsistent(ctx, lines[:-1], fb, scaling, la, lb):
            ctx.stats.count("known_C05-K1_occurrences")
            ctx.stats.note(case, False, ["feedback_hit_known_K1"])
            return
        if outs0[-1]["err"] != 0:
            raise Violation("boolean %s returned error %d" % (fb, outs0[-1]["err"]), case, 0, outs0[-1]["err"], lines)
        first_polys, worst = gk.to_int_polys(X, scaling)
        first_polys = [[(x - off[0], y - off[1]) for x, y in p] for p in first_polys]
        if not first_polys:
            ctx.stats.note(case, False, ["feedback_empty"])
            return
        lx = "%d %s" % (len(X), " ".join("x.%d" % i for i in range(len(X))))
        second_polys = [[tuple(q) for q in p] for p in D]
        l1, l2 = lx, ld
    else:
        first_polys = [[tuple(q) for q in p] for p in A]
        second_polys = [[tuple(q) for q in p] for p in B]
        l1, l2 = la, lb
    build_lines = list(lines)
    for op in OPS:
        lines.append("geom boolean %s %s - %s %s" % (op, fl(scaling), l1, l2))
    lines.append("geom boolean or %s - %s 0" % (fl(scaling), l1))
    lines.append("geom boolean or %s - %s 0" % (fl(scaling), l2))
    outs = ctx.run(lines, case)
    res = outs[-6:]
    allin = first_polys + second_polys
    cands = gk.candidate_samples(allin)
    samples = gk.decidable(allin, cands, band=2)
    labels = []
    classes = {"A-B": 0, "B-A": 0, "A&B": 0, "out": 0}
    memb = []
    for (x, y) in samples:
        ia = gk.covers(first_polys, x, y)
        ib = gk.covers(second_polys, x, y)
        memb.append((ia, ib))
        classes["A&B" if ia and ib else "A-B" if ia else "B-A" if ib else "out"] += 1
    areas = {}
    bad_ops = set()
    touching = None
    for op, r in zip(OPS + ["ua", "ub"], res):
        try:
            judge_op(ctx, case, lines, op, r, scaling, off, samples, memb, areas)
        except Violation:
            if strict or "C05-K1" not in ctx.known_ids or not tree_inconsistent(ctx, build_lines, op, scaling, l1, l2):
                raise
            # known finding C05-K1 (known_findings.json): Clipper's PolyTree for these operands is structurally
            # inconsistent (wrong parent / hole state); gdstk trusts it and drops, fills or mis-links a contour.
            # Counted, not judged.
            ctx.stats.count("known_C05-K1_occurrences")
            bad_ops.add(op)
            areas[op] = areas[op + "_per"] = 0.0
    tol = lambda *ops: (sum(areas[o + "_per"] for o in ops) * 1.0 + 4.0) if not (set(ops) & bad_ops) else float("inf")
    try:
        area_identities(case, lines, areas, tol, fb, A, bad_ops)
    except Violation:
        if strict or "C05-K1" not in ctx.known_ids or \
                not any(tree_inconsistent(ctx, build_lines, op, scaling, l1, l2) for op in OPS + ["ua", "ub"]):
            raise
        ctx.stats.count("known_C05-K1_occurrences")
    finish(ctx, case, classes, samples, cands, fb, scaling, res)


def area_identities(case, lines, areas, tol, fb, A, bad_ops):
    if abs(areas["or"] + areas["and"] - areas["ua"] - areas["ub"]) > tol("or", "and", "ua", "ub"):
        raise Violation("area(OR)+area(AND) = %r but area(A)+area(B) = %r" % (areas["or"] + areas["and"], areas["ua"] + areas["ub"]), case,
                        areas["ua"] + areas["ub"], areas["or"] + areas["and"], lines)
    if abs(areas["xor"] - (areas["or"] - areas["and"])) > tol("xor", "or", "and"):
        raise Violation("area(XOR) = %r but area(OR)-area(AND) = %r" % (areas["xor"], areas["or"] - areas["and"]), case,
                        areas["or"] - areas["and"], areas["xor"], lines)
    if abs(areas["not"] - (areas["ua"] - areas["and"])) > tol("not", "ua", "and"):
        raise Violation("area(NOT) = %r but area(A)-area(AND) = %r" % (areas["not"], areas["ua"] - areas["and"]), case,
                        areas["ua"] - areas["and"], areas["not"], lines)
    if not fb and len(A) == 1:
        exact = abs(gk.area2([tuple(q) for q in A[0]])) / 2.0
        if "ua" not in bad_ops and abs(areas["ua"] - exact) > gk.perimeter(A[0]) + 4:
            raise Violation("area(OR(A,{})) = %r, exact shoelace %r" % (areas["ua"], exact), case, exact, areas["ua"], lines)


def finish(ctx, case, classes, samples, cands, fb, scaling, res):
    labels = []
    populated = sum(1 for k in ("A-B", "B-A", "A&B") if classes[k] > 0)
    nontrivial = populated >= 2
    for k, v in classes.items():
        if v:
            labels.append("samples_in_" + k)
    ctx.stats.count("decidable_samples", len(samples) * 4)
    ctx.stats.count("candidates_in_band", (len(cands) - len(samples)) * 4)
    labels.append("feedback_" + str(fb))
    labels.append("scaling_%g" % scaling)
    labels.append("size_2^%d" % max(0, int(math.log2(max(1, max([abs(c) for p in case["A"] + case["B"] for q in p for c in q] + [1]))))))
    if any(len(r["result"]) and any(len(p["pts"]) > 0 for p in r["result"]) for r in res[:4]):
        labels.append("nonempty_result")
    ctx.stats.note(case, nontrivial, labels)


def run_worker(ctx):
    n = 3000 if ctx.tier == "quick" else 60000
    v = ctx.hypothesis(check, case_strategy(), ctx.share(n), "boolean")
    vs = [v] if v else []
    # systematic small configurations, judged WITHOUT the known-finding classifier: an L-shaped polygon (a rectangle of the
    # 0..3 x 0..3 lattice minus a corner rectangle) against a rectangle of the same lattice, both operand orders - shared
    # edges, holes touching the outline in one vertex, results made of several contours.  The unchanged tree answers all of
    # them exactly (C05-K1 needs denser contact patterns), so any mismatch here is a violation however Clipper's tree looks.
    rects = [(x0, y0, x1, y1) for x0 in range(4) for x1 in range(x0 + 1, 4) for y0 in range(4) for y1 in range(y0 + 1, 4)]
    ls = []
    for (x0, y0, x1, y1) in rects:
        for cx in range(x0 + 1, x1):
            for cy in range(y0 + 1, y1):
                ls.append([[x0, y0], [x1, y0], [x1, cy], [cx, cy], [cx, y1], [x0, y1]])      # top-right corner removed
                ls.append([[x0, y0], [x1, y0], [x1, y1], [cx, y1], [cx, cy], [x0, cy]])      # top-left corner removed
    i = 0
    for L in ls:
        for (x0, y0, x1, y1) in rects:
            R = [[x0, y0], [x1, y0], [x1, y1], [x0, y1]]
            for A, B in (([L], [R]), ([R], [L])):
                i += 1
                if i % ctx.nworkers != ctx.worker:
                    continue
                if ctx.tier == "quick" and (i // ctx.nworkers) % 2 != ctx.seed % 2:
                    continue
                try:
                    check(ctx, {"scaling": 8.0, "offset": [0, 0], "A": [[[8 * x, 8 * y] for x, y in P] for P in A],
                                "B": [[[8 * x, 8 * y] for x, y in P] for P in B], "feedback": None, "D": [], "strict": True})
                except Violation as v2:
                    v2.test = "small_strict"
                    vs.append(v2)
                    return vs
    return vs


def replay(ctx, test, case, ignore_known=False):
    return check(ctx, case, strict=ignore_known)
