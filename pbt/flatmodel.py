"""Affine maps and the hand-flattening of abstract libraries (layoutgen): the independent oracle of C06, C09, C10.
All lengths in grid units.  A placement is (mag, xrefl, rot, ox, oy): p -> R(rot) * X(xrefl) * (mag * p) + o."""
import math

import repgen


class Aff:
    """2x3 matrix [[a, b, tx], [c, d, ty]]"""

    __slots__ = ("a", "b", "c", "d", "tx", "ty")

    def __init__(self, a=1.0, b=0.0, c=0.0, d=1.0, tx=0.0, ty=0.0):
        self.a, self.b, self.c, self.d, self.tx, self.ty = a, b, c, d, tx, ty

    @staticmethod
    def placement(mag, xr, rot, ox, oy):
        ca, sa = math.cos(rot), math.sin(rot)
        s = -1.0 if xr else 1.0
        # R * diag(1, s) * mag
        return Aff(mag * ca, -mag * s * sa, mag * sa, mag * s * ca, ox, oy)

    @staticmethod
    def translation(dx, dy):
        return Aff(1.0, 0.0, 0.0, 1.0, dx, dy)

    def __call__(self, p):
        return (self.a * p[0] + self.b * p[1] + self.tx, self.c * p[0] + self.d * p[1] + self.ty)

    def linear(self, v):
        return (self.a * v[0] + self.b * v[1], self.c * v[0] + self.d * v[1])

    def __mul__(self, o):
        """self after o"""
        return Aff(self.a * o.a + self.b * o.c, self.a * o.b + self.b * o.d, self.c * o.a + self.d * o.c, self.c * o.b + self.d * o.d,
                   self.a * o.tx + self.b * o.ty + self.tx, self.c * o.tx + self.d * o.ty + self.ty)

    def det(self):
        return self.a * self.d - self.b * self.c

    def scale(self):
        return math.sqrt(abs(self.det()))

    def reflects(self):
        return self.det() < 0

    def rotation(self):
        """angle of the image of the x axis"""
        return math.atan2(self.c, self.a)


def ref_placements(r):
    """list of Aff for a reference incl. its repetition (offsets are added after the reference's own transform)"""
    base = Aff.placement(r["mag"], r["xr"], r["rot"], r["origin"][0], r["origin"][1])
    out = []
    for off in (repgen.offsets(r["rep"]) if r["rep"] is not None else [(0.0, 0.0)]):
        out.append(Aff.translation(off[0], off[1]) * base)
    return out


def flatten(lib, ci, depth, want, M=None, tag=None):
    """hand flattening.  want in {"polys", "labels", "fps", "rps"}; returns list of (element, offset, Aff) triples where the
    element's geometry (translated by its own repetition offset) is to be mapped by Aff."""
    M = M if M is not None else Aff()
    c = lib["cells"][ci]
    out = []
    if want == "polys":
        items = c["polys"]
    elif want == "labels":
        items = c["labels"]
    elif want == "fps":
        items = [p for p in c["paths"] if p["kind"] == "fp"]
    else:
        items = [p for p in c["paths"] if p["kind"] == "rp"]
    for e in items:
        for off in (repgen.offsets(e["rep"]) if e.get("rep") is not None else [(0.0, 0.0)]):
            out.append((e, off, M))
    if depth != 0:
        for r in c["refs"]:
            if r["kind"] != "cell":
                continue
            for P in ref_placements(r):
                out += flatten(lib, r["target"], depth - 1 if depth > 0 else -1, want, M * P, tag)
    return out


def match_multiset(expected, got, pred):
    """greedy multiset matching; returns (unmatched_expected_item or None, leftover_got_list)"""
    rest = list(got)
    for e in expected:
        hit = None
        for i, g in enumerate(rest):
            if pred(e, g):
                hit = i
                break
        if hit is None:
            return e, rest
        rest.pop(hit)
    return None, rest


def pts_close(a, b, tol):
    if len(a) != len(b):
        return False
    for p, q in zip(a, b):
        if abs(p[0] - q[0]) > tol or abs(p[1] - q[1]) > tol:
            return False
    return True


def cyclic_close(a, b, tol):
    """same closed vertex sequence up to rotation of the start index and orientation (reflections reverse orientation only
    in appearance: gdstk keeps the vertex order)"""
    n = len(a)
    if n != len(b):
        return False
    if pts_close(a, b, tol):
        return True
    return False


def seg_dist(p, a, b):
    dx, dy = b[0] - a[0], b[1] - a[1]
    l2 = dx * dx + dy * dy
    if l2 == 0:
        return math.hypot(p[0] - a[0], p[1] - a[1])
    t = ((p[0] - a[0]) * dx + (p[1] - a[1]) * dy) / l2
    t = 0.0 if t < 0 else 1.0 if t > 1 else t
    return math.hypot(p[0] - a[0] - t * dx, p[1] - a[1] - t * dy)


def boundary_dist(p, poly):
    n = len(poly)
    return min(seg_dist(p, poly[i], poly[(i + 1) % n]) for i in range(n))


def hausdorff_vertices(A, B):
    """max over vertices of A of the distance to the boundary of B, and vice versa"""
    if not A or not B:
        return float("inf") if (A or B) else 0.0
    return max(max(boundary_dist(p, B) for p in A), max(boundary_dist(p, A) for p in B))


def bbox_of(pts):
    xs = [p[0] for p in pts]
    ys = [p[1] for p in pts]
    return (min(xs), min(ys), max(xs), max(ys))


def outline_close(a, b, tol):
    """cheap bounding-box rejection, then the vertex Hausdorff distance"""
    if not a or not b:
        return not a and not b
    ba, bb = bbox_of(a), bbox_of(b)
    if any(abs(x - y) > tol for x, y in zip(ba, bb)):
        return False
    return hausdorff_vertices(a, b) <= tol


def winding_nonzero(p, poly):
    """nonzero winding membership of point p in the closed polygon poly"""
    w = 0
    n = len(poly)
    px, py = p
    for i in range(n):
        ax, ay = poly[i]
        bx, by = poly[(i + 1) % n]
        cr = (bx - ax) * (py - ay) - (by - ay) * (px - ax)
        if ay <= py:
            if by > py and cr > 0:
                w += 1
        elif by <= py and cr < 0:
            w -= 1
    return w != 0


def region_close(a, b, tol):
    """the two outlines bound the same region: equal bounding boxes, and every vertex of one lies within tol of the other's
    boundary or inside it (an outline may contain loops that stay inside the region, e.g. a round join on collinear points
    drawn as a full circle - the region is the same)"""
    if not a or not b:
        return not a and not b
    ba, bb = bbox_of(a), bbox_of(b)
    if any(abs(x - y) > tol for x, y in zip(ba, bb)):
        return False
    for P, Q in ((a, b), (b, a)):
        for v in P:
            if boundary_dist(v, Q) > tol and not winding_nonzero(v, Q):
                return False
    return True
