"""Independent GDSII stream codec written from DESIGN.md Appendix A.1 (not from gdstk's reader/writer).

encode(layout, choices) -> bytes      every freedom a conforming writer has is taken from the `choices` vector
strict_decode(bytes) -> layout        rejects anything the grammar forbids

Abstract layout:
 {"libname": str, "units": [db_in_user, db_in_meters], "bgnlib": [12 ints], "structs": [{"name": str, "bgnstr": [12 ints], "elements": [el]}]}
 el = {"kind": "boundary"|"box"|"path"|"sref"|"aref"|"text", "layer", "datatype" (boxtype/texttype), "xy": [[x,y],...] (ints, closed for
       boundary/box), "props": [[attr, bytes-as-latin1-str]], optional: "elflags", "plex", "pathtype", "width", "bgnextn", "endextn",
       "sname", "strans": {"refl": bool, "mag": float|None, "angle": float|None}|None, "cols", "rows", "presentation", "string"}
"""
import struct
from fractions import Fraction


class FormatError(Exception):
    pass


# record ids
HEADER, BGNLIB, LIBNAME, UNITS, ENDLIB, BGNSTR, STRNAME, ENDSTR = 0x00, 0x01, 0x02, 0x03, 0x04, 0x05, 0x06, 0x07
BOUNDARY, PATH, SREF, AREF, TEXT, LAYER, DATATYPE, WIDTH, XY, ENDEL = 0x08, 0x09, 0x0A, 0x0B, 0x0C, 0x0D, 0x0E, 0x0F, 0x10, 0x11
SNAME, COLROW, TEXTTYPE, PRESENTATION, STRING, STRANS, MAG, ANGLE = 0x12, 0x13, 0x16, 0x17, 0x19, 0x1A, 0x1B, 0x1C
REFLIBS, FONTS, PATHTYPE, GENERATIONS, ATTRTABLE, ELFLAGS, PROPATTR, PROPVALUE = 0x1F, 0x20, 0x21, 0x22, 0x23, 0x26, 0x2B, 0x2C
BOX, BOXTYPE, PLEX, BGNEXTN, ENDEXTN, STRCLASS, FORMAT, MASK, ENDMASKS = 0x2D, 0x2E, 0x2F, 0x30, 0x31, 0x34, 0x36, 0x37, 0x38

NODATA, BITARRAY, INT2, INT4, REAL4, REAL8, ASCII = 0, 1, 2, 3, 4, 5, 6

DTYPE = {HEADER: INT2, BGNLIB: INT2, LIBNAME: ASCII, UNITS: REAL8, ENDLIB: NODATA, BGNSTR: INT2, STRNAME: ASCII, ENDSTR: NODATA,
         BOUNDARY: NODATA, PATH: NODATA, SREF: NODATA, AREF: NODATA, TEXT: NODATA, LAYER: INT2, DATATYPE: INT2, WIDTH: INT4, XY: INT4,
         ENDEL: NODATA, SNAME: ASCII, COLROW: INT2, TEXTTYPE: INT2, PRESENTATION: BITARRAY, STRING: ASCII, STRANS: BITARRAY, MAG: REAL8,
         ANGLE: REAL8, REFLIBS: ASCII, FONTS: ASCII, PATHTYPE: INT2, GENERATIONS: INT2, ATTRTABLE: ASCII, ELFLAGS: BITARRAY,
         PROPATTR: INT2, PROPVALUE: ASCII, BOX: NODATA, BOXTYPE: INT2, PLEX: INT4, BGNEXTN: INT4, ENDEXTN: INT4, STRCLASS: BITARRAY,
         FORMAT: INT2, MASK: ASCII, ENDMASKS: NODATA}


# ---------------------------------------------------------------- 8-byte reals
def real8_decode(b):
    (u,) = struct.unpack(">Q", b)
    sign = -1 if u >> 63 else 1
    e = (u >> 56) & 0x7F
    mant = u & ((1 << 56) - 1)
    return sign * Fraction(mant, 1 << 56) * Fraction(16) ** (e - 64)


def real8_encode(value, unnormalised_shift=0):
    """value: float/Fraction.  Truncates to 56 bits.  unnormalised_shift > 0 yields a legal unnormalised pattern when the
    low hex digits are zero anyway (used as an encoder freedom)."""
    v = Fraction(value)
    if v == 0:
        return b"\0" * 8
    sign = 0
    if v < 0:
        sign = 0x80
        v = -v
    e = 0
    while v >= 1:
        v /= 16
        e += 1
    while v < Fraction(1, 16):
        v *= 16
        e -= 1
    mant = int(v * (1 << 56))  # truncation
    for _ in range(unnormalised_shift):
        if mant & 0xF == 0 and e + 64 < 127:
            mant >>= 4
            e += 1
    ex = e + 64
    if not 0 <= ex <= 127:
        raise ValueError("real8 out of range")
    return struct.pack(">Q", ((sign | ex) << 56) | mant)


# ---------------------------------------------------------------- encoder
class Choices:
    """deterministic stream of small integers drawn up front by Hypothesis (shrinks towards all zeros = canonical form)"""

    def __init__(self, vec):
        self.vec = list(vec) or [0]
        self.i = 0
        self.used_nondefault = set()

    def pick(self, n, label):
        v = self.vec[self.i % len(self.vec)] % n
        self.i += 1
        if v:
            self.used_nondefault.add(label)
        return v


def rec(rtype, payload=b""):
    if len(payload) % 2:
        raise ValueError("odd payload")
    n = 4 + len(payload)
    if n > 0xFFFF:
        raise ValueError("record too long")
    return struct.pack(">HBB", n, rtype, DTYPE[rtype]) + payload


def pad_str(s, ch, label="pad"):
    b = s if isinstance(s, bytes) else s.encode("latin-1")
    if len(b) % 2:
        b += b"\0"
    return b


def i2(*v):
    return struct.pack(">%dh" % len(v), *v)


def u2(*v):
    return struct.pack(">%dH" % len(v), *v)


def i4(*v):
    return struct.pack(">%di" % len(v), *v)


def enc_xy(xy, ch, label="xy_split"):
    """XY list possibly split over several records at arbitrary pair boundaries"""
    out = b""
    pts = list(xy)
    mode = ch.pick(4, label) if len(pts) > 2 else 0
    chunks = []
    if mode == 0:
        chunks = [pts]
    elif mode == 1:
        k = max(1, len(pts) // 2)
        chunks = [pts[:k], pts[k:]]
    elif mode == 2:
        chunks = [pts[:1], pts[1:-1], pts[-1:]]
    else:
        chunks = [[p] for p in pts]
    for c in chunks:
        if not c:
            continue
        # a record holds at most 8191 pairs
        for i in range(0, len(c), 8191):
            out += rec(XY, i4(*[v for p in c[i:i + 8191] for v in p]))
    return out


def enc_strans(st, ch):
    if st is None:
        return b""
    flags = 0x8000 if st.get("refl") else 0
    out = rec(STRANS, u2(flags))
    if st.get("mag") is not None:
        out += rec(MAG, real8_encode(st["mag"], ch.pick(2, "real_unnormalised")))
    if st.get("angle") is not None:
        out += rec(ANGLE, real8_encode(st["angle"], ch.pick(2, "real_unnormalised")))
    return out


def enc_props(props):
    out = b""
    for attr, val in props:
        out += rec(PROPATTR, u2(attr & 0xFFFF)) + rec(PROPVALUE, pad_str(val, None))
    return out


def enc_element(el, ch):
    k = el["kind"]
    head = {"boundary": BOUNDARY, "box": BOX, "path": PATH, "sref": SREF, "aref": AREF, "text": TEXT}[k]
    out = rec(head)
    if el.get("elflags") is not None:
        out += rec(ELFLAGS, u2(el["elflags"]))
    if el.get("plex") is not None:
        out += rec(PLEX, i4(el["plex"]))
    if k in ("boundary", "box", "path", "text"):
        out += rec(LAYER, i2(el["layer"]))
    if k == "boundary" or k == "path":
        out += rec(DATATYPE, i2(el["datatype"]))
    elif k == "box":
        out += rec(BOXTYPE, i2(el["datatype"]))
    elif k == "text":
        out += rec(TEXTTYPE, i2(el["datatype"]))
        if el.get("presentation") is not None:
            out += rec(PRESENTATION, u2(el["presentation"]))
    if k in ("path", "text"):
        if el.get("pathtype") is not None:
            out += rec(PATHTYPE, i2(el["pathtype"]))
        if el.get("width") is not None:
            out += rec(WIDTH, i4(el["width"]))
    if k == "path":
        if el.get("bgnextn") is not None:
            out += rec(BGNEXTN, i4(el["bgnextn"]))
        if el.get("endextn") is not None:
            out += rec(ENDEXTN, i4(el["endextn"]))
    if k in ("sref", "aref"):
        out += rec(SNAME, pad_str(el["sname"], ch))
    if k in ("sref", "aref", "text"):
        out += enc_strans(el.get("strans"), ch)
    if k == "aref":
        out += rec(COLROW, u2(el["cols"], el["rows"]))
    if k in ("boundary", "path"):
        out += enc_xy(el["xy"], ch)
    else:
        out += rec(XY, i4(*[v for p in el["xy"] for v in p]))
    if k == "text":
        out += rec(STRING, pad_str(el["string"], ch))
    out += enc_props(el.get("props", []))
    out += rec(ENDEL)
    return out


def encode(layout, choices):
    ch = choices if isinstance(choices, Choices) else Choices(choices)
    out = rec(HEADER, i2([600, 3, 5, 7][ch.pick(4, "header_version")]))
    out += rec(BGNLIB, i2(*layout.get("bgnlib", [2000, 1, 1, 0, 0, 0] * 2)))
    out += rec(LIBNAME, pad_str(layout["libname"], ch))
    if ch.pick(3, "reflibs") == 1:
        out += rec(REFLIBS, pad_str("A" * 44 + "B" * 44, ch))
    if ch.pick(3, "fonts") == 1:
        out += rec(FONTS, pad_str("F" * 44 * 4, ch))
    if ch.pick(3, "attrtable") == 1:
        out += rec(ATTRTABLE, pad_str("attrs.tab", ch))
    if ch.pick(3, "generations") == 1:
        out += rec(GENERATIONS, i2(3))
    f = ch.pick(4, "format")
    if f == 1:
        out += rec(FORMAT, i2(0))
    elif f == 2:
        out += rec(FORMAT, i2(1)) + rec(MASK, pad_str("1 5-7 10", ch)) + rec(ENDMASKS)
    out += rec(UNITS, real8_encode(layout["units"][0]) + real8_encode(layout["units"][1]))
    structs = list(layout["structs"])
    order = ch.pick(3, "struct_order")
    if order == 1:
        structs = structs[::-1]
    elif order == 2 and len(structs) > 1:
        structs = structs[1:] + structs[:1]
    for s in structs:
        out += rec(BGNSTR, i2(*s.get("bgnstr", [2000, 1, 1, 0, 0, 0] * 2)))
        out += rec(STRNAME, pad_str(s["name"], ch))
        if ch.pick(4, "strclass") == 1:
            out += rec(STRCLASS, u2(0))
        for el in s["elements"]:
            out += enc_element(el, ch)
        out += rec(ENDSTR)
    out += rec(ENDLIB)
    return out


# ---------------------------------------------------------------- strict decoder
def records(data):
    pos = 0
    n = len(data)
    while pos < n:
        if pos + 4 > n:
            raise FormatError("truncated record header at %d" % pos)
        length, rtype, dtype = struct.unpack(">HBB", data[pos:pos + 4])
        if length < 4 or length % 2:
            raise FormatError("record length %d at %d" % (length, pos))
        if pos + length > n:
            raise FormatError("record at %d runs past the end of the file" % pos)
        if rtype not in DTYPE:
            raise FormatError("unknown record type 0x%02x at %d" % (rtype, pos))
        if DTYPE[rtype] != dtype:
            raise FormatError("record 0x%02x with data type %d (expected %d)" % (rtype, dtype, DTYPE[rtype]))
        yield pos, rtype, data[pos + 4:pos + length]
        pos += length
        if rtype == ENDLIB:
            # anything after ENDLIB must be padding (tape blocks); gdstk writes none
            if any(data[pos:]):
                raise FormatError("data after ENDLIB")
            return
    raise FormatError("no ENDLIB")


def d_i2(p, n=None):
    if len(p) % 2 or (n is not None and len(p) != 2 * n):
        raise FormatError("bad int2 payload length %d" % len(p))
    return list(struct.unpack(">%dh" % (len(p) // 2), p))


def d_u2(p, n=None):
    if len(p) % 2 or (n is not None and len(p) != 2 * n):
        raise FormatError("bad bit-array payload length %d" % len(p))
    return list(struct.unpack(">%dH" % (len(p) // 2), p))


def d_i4(p, n=None):
    if len(p) % 4 or (n is not None and len(p) != 4 * n):
        raise FormatError("bad int4 payload length %d" % len(p))
    return list(struct.unpack(">%di" % (len(p) // 4), p))


def d_str(p):
    if len(p) % 2 or len(p) == 0:
        raise FormatError("bad string payload length %d" % len(p))
    s = p[:-1] if p.endswith(b"\0") else p
    if b"\0" in s:
        raise FormatError("NUL inside a string")
    return s.decode("latin-1")


def strict_decode(data, allow_multi_xy=True, wide_numbers=False):
    # wide_numbers: layer / type words are taken as unsigned 16-bit values and not range-checked (gdstk writes numbers
    # above 32767 that way; the specification stops at 32767)
    it = list(records(data))
    i = 0
    notes = set()

    def peek():
        return it[i][1] if i < len(it) else None

    def take(rt):
        nonlocal i
        if i >= len(it) or it[i][1] != rt:
            raise FormatError("expected record 0x%02x at index %d, found %s" % (rt, i, "0x%02x" % it[i][1] if i < len(it) else "EOF"))
        i += 1
        return it[i - 1][2]

    def opt(rt):
        nonlocal i
        if i < len(it) and it[i][1] == rt:
            i += 1
            return it[i - 1][2]
        return None
    layout = {}
    d_i2(take(HEADER), 1)
    layout["bgnlib"] = d_i2(take(BGNLIB), 12)
    layout["libname"] = d_str(take(LIBNAME))
    for o in (REFLIBS, FONTS, ATTRTABLE, GENERATIONS):
        opt(o)
    if opt(FORMAT) is not None:
        while opt(MASK) is not None:
            pass
        opt(ENDMASKS)
    u = take(UNITS)
    if len(u) != 16:
        raise FormatError("UNITS payload %d bytes" % len(u))
    layout["units"] = [real8_decode(u[:8]), real8_decode(u[8:])]
    layout["structs"] = []
    while peek() == BGNSTR:
        s = {"bgnstr": d_i2(take(BGNSTR), 12), "name": d_str(take(STRNAME)), "elements": []}
        opt(STRCLASS)
        while peek() in (BOUNDARY, PATH, SREF, AREF, TEXT, BOX):
            head = it[i][1]
            i += 1
            el = {"kind": {BOUNDARY: "boundary", PATH: "path", SREF: "sref", AREF: "aref", TEXT: "text", BOX: "box"}[head]}
            p = opt(ELFLAGS)
            if p is not None:
                el["elflags"] = d_u2(p, 1)[0]
            p = opt(PLEX)
            if p is not None:
                el["plex"] = d_i4(p, 1)[0]
            k = el["kind"]
            if k in ("boundary", "box", "path", "text"):
                el["layer"] = d_i2(take(LAYER), 1)[0]
                if wide_numbers:
                    el["layer"] &= 0xFFFF
                if not 0 <= el["layer"] <= (65535 if wide_numbers else 32767):
                    raise FormatError("layer %d" % el["layer"])
            if k in ("boundary", "path"):
                el["datatype"] = d_i2(take(DATATYPE), 1)[0]
            elif k == "box":
                el["datatype"] = d_i2(take(BOXTYPE), 1)[0]
            elif k == "text":
                el["datatype"] = d_i2(take(TEXTTYPE), 1)[0]
                p = opt(PRESENTATION)
                el["presentation"] = d_u2(p, 1)[0] if p is not None else None
            if wide_numbers and "datatype" in el:
                el["datatype"] &= 0xFFFF
            if k in ("boundary", "box", "path", "text") and not 0 <= el["datatype"] <= (65535 if wide_numbers else 32767):
                raise FormatError("datatype %d" % el["datatype"])
            if k in ("path", "text"):
                p = opt(PATHTYPE)
                el["pathtype"] = d_i2(p, 1)[0] if p is not None else None
                if el["pathtype"] not in (None, 0, 1, 2, 4):
                    raise FormatError("pathtype %r" % el["pathtype"])
                p = opt(WIDTH)
                el["width"] = d_i4(p, 1)[0] if p is not None else None
            if k == "path":
                p = opt(BGNEXTN)
                el["bgnextn"] = d_i4(p, 1)[0] if p is not None else None
                p = opt(ENDEXTN)
                el["endextn"] = d_i4(p, 1)[0] if p is not None else None
            if k in ("sref", "aref"):
                el["sname"] = d_str(take(SNAME))
            if k in ("sref", "aref", "text"):
                p = opt(STRANS)
                if p is not None:
                    flags = d_u2(p, 1)[0]
                    if flags & ~0x8006:
                        raise FormatError("STRANS flags 0x%04x" % flags)
                    st = {"refl": bool(flags & 0x8000), "absmag": bool(flags & 4), "absangle": bool(flags & 2), "mag": None, "angle": None}
                    m = opt(MAG)
                    if m is not None:
                        if len(m) != 8:
                            raise FormatError("MAG payload")
                        st["mag"] = real8_decode(m)
                    a = opt(ANGLE)
                    if a is not None:
                        if len(a) != 8:
                            raise FormatError("ANGLE payload")
                        st["angle"] = real8_decode(a)
                    el["strans"] = st
                else:
                    el["strans"] = None
            if k == "aref":
                c = d_u2(take(COLROW), 2)
                el["cols"], el["rows"] = c
            xy = d_i4(take(XY))
            nrec = 1
            while peek() == XY:
                if not allow_multi_xy or k not in ("boundary", "path"):
                    raise FormatError("second XY record in a %s" % k)
                xy += d_i4(take(XY))
                nrec += 1
            if len(xy) % 2:
                raise FormatError("odd number of coordinates")
            if nrec > 1:
                notes.add("multi_record_xy")
            pts = [[xy[j], xy[j + 1]] for j in range(0, len(xy), 2)]
            el["xy"] = pts
            if k == "boundary":
                if len(pts) < 4 or pts[0] != pts[-1]:
                    raise FormatError("BOUNDARY not closed or fewer than 4 points (%d)" % len(pts))
            elif k == "box":
                if len(pts) != 5 or pts[0] != pts[-1]:
                    raise FormatError("BOX needs 5 points")
            elif k == "path":
                if len(pts) < 2:
                    raise FormatError("PATH with %d points" % len(pts))
            elif k in ("sref", "text"):
                if len(pts) != 1:
                    raise FormatError("%s with %d points" % (k, len(pts)))
            elif k == "aref":
                if len(pts) != 3:
                    raise FormatError("AREF with %d points" % len(pts))
            if k == "text":
                el["string"] = d_str(take(STRING))
            props = []
            while peek() == PROPATTR:
                attr = d_u2(take(PROPATTR), 1)[0]
                val = take(PROPVALUE)
                if len(val) % 2:
                    raise FormatError("odd PROPVALUE")
                v = val[:-1] if val.endswith(b"\0") else val
                props.append([attr, v.decode("latin-1")])
            el["props"] = props
            take(ENDEL)
            s["elements"].append(el)
        take(ENDSTR)
        layout["structs"].append(s)
    take(ENDLIB)
    if i != len(it):
        raise FormatError("records after ENDLIB")
    layout["notes"] = sorted(notes)
    return layout
