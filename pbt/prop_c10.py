"""C10 - element transforms are the documented affine maps and compose correctly."""
import math

from hypothesis import strategies as st

from common import Violation, fl, hx
import layoutgen as lg
import flatmodel as fm
import repgen

LEVEL = "exploration"
RULE = ("Hypothesis cases: one element of a drawn kind (polygon; flexpath with 1-2 elements, offsets, circular bends, every end type "
        "incl. extended, both width-scaling states; robust path likewise; label; reference; repetition of each kind) and a "
        "sequence of 1-5 transforms drawn from translate, scale (either sign; per-axis for polygons), mirror (any axis), rotate "
        "(any centre), transform(magnification, reflection, rotation, origin). Oracle: 2x3 matrix arithmetic in Python - "
        "polygon vertices map point-wise; label/reference placements compose as matrices (rotation sign flips under "
        "reflection, magnifications multiply); repetition vectors map by the linear part; flexpaths are compared "
        "structurally (spine mapped point-wise, half widths x |s| only when scale_width, offsets x |s| with the sign flipped "
        "per reflection, end extensions and bend radius x |s|) and by outline (transform-then-outline vs outline-then-"
        "transform where that is an identity); robust paths by position/width/offset evaluation and by outline. "
        "Non-trivial: a reflection combined with a non-zero path offset, or a negative scale, or >= 3 chained transforms with "
        "a rotation that is not a multiple of 90 degrees; distinct by case hash")
ASSUMPTIONS = ["X::transform is not required to move X.repetition (callers pair it with Repetition::transform)",
               "transform() is given positive magnifications (reference semantics); negative factors are exercised through scale()",
               "tolerance 1e-9 relative; outlines with round features compared by vertex Hausdorff distance <= 3 x tolerance x |scale|"]

num = st.one_of(st.integers(-300, 300).map(float), st.floats(-300, 300, allow_nan=False).map(lambda v: round(v, 3)))
angle = st.sampled_from([0.0, math.pi / 2, math.pi, -math.pi / 2, 0.3, 1.0, -2.5, 7.0, math.pi / 4])
factor = st.sampled_from([1.0, 2.0, 0.5, 1.0 / 3, -1.0, -2.0, 3.0])


@st.composite
def xf(draw, kind):
    if kind in ("label", "ref", "rep"):
        ops = ["transform"]
    elif kind == "poly":
        ops = ["translate", "scale", "scale2", "mirror", "rotate", "transform"]
    else:
        ops = ["translate", "scale", "mirror", "rotate", "transform"]
    k = draw(st.sampled_from(ops))
    if k == "translate":
        return [k, draw(num), draw(num)]
    if k == "scale":
        return [k, draw(factor), draw(num), draw(num)]
    if k == "scale2":
        return [k, draw(factor), draw(factor), draw(num), draw(num)]
    if k == "mirror":
        x0, y0 = draw(num), draw(num)
        dx, dy = draw(st.sampled_from([(1.0, 0.0), (0.0, 1.0), (1.0, 1.0), (3.0, -2.0), (-1.0, 4.0)]))
        return [k, x0, y0, x0 + dx, y0 + dy]
    if k == "rotate":
        return [k, draw(angle), draw(num), draw(num)]
    return [k, draw(st.sampled_from([1.0, 2.0, 0.5, 1.0 / 3, 3.0])), draw(st.booleans()), draw(angle), draw(num), draw(num)]


@st.composite
def case_strategy(draw):
    kind = draw(st.sampled_from(["poly", "fp", "fp", "rp", "rp", "label", "ref", "rep"]))
    none_props = lambda: st.just([])
    if kind == "poly":
        el = draw(lg.polygon(size=300, props=none_props, allow_rep=False))
    elif kind == "fp":
        el = draw(lg.outline_flexpath(size=300, props=none_props, rep_st=st.none()))
        el["rep"] = None
        if draw(st.booleans()):
            for e in el["els"]:
                e["bend_radius"] = 50.0   # inner radius stays clearly positive (offset 20 + half width 10 < 50)
    elif kind == "rp":
        el = draw(lg.robustpath(size=300, props=none_props, simple=False, rep_st=st.none()))
        el["rep"] = None
    elif kind == "label":
        el = draw(lg.label(size=300, props=none_props, rep_st=st.none()))
        el["rep"] = None
    elif kind == "ref":
        el = draw(lg.reference(0, size=300, props=none_props, allow_name=True))
        el["rep"] = None
    else:
        el = {"rep": draw(lg.grid_rep(size=100))}
    xfs = [draw(xf(kind)) for _ in range(draw(st.integers(1, 5)))]
    return {"kind": kind, "el": el, "xfs": xfs}


def matrix_of(t):
    k = t[0]
    if k == "translate":
        return fm.Aff.translation(t[1], t[2])
    if k == "scale":
        s, cx, cy = t[1:]
        return fm.Aff(s, 0.0, 0.0, s, cx * (1 - s), cy * (1 - s))
    if k == "scale2":
        sx, sy, cx, cy = t[1:]
        return fm.Aff(sx, 0.0, 0.0, sy, cx * (1 - sx), cy * (1 - sy))
    if k == "mirror":
        x0, y0, x1, y1 = t[1:]
        vx, vy = x1 - x0, y1 - y0
        l2 = vx * vx + vy * vy
        a = 2 * vx * vx / l2 - 1
        b = 2 * vx * vy / l2
        d = 2 * vy * vy / l2 - 1
        return fm.Aff(a, b, b, d, x0 - (a * x0 + b * y0), y0 - (b * x0 + d * y0))
    if k == "rotate":
        a, cx, cy = t[1:]
        ca, sa = math.cos(a), math.sin(a)
        return fm.Aff(ca, -sa, sa, ca, cx - (ca * cx - sa * cy), cy - (sa * cx + ca * cy))
    m, xr, rot, ox, oy = t[1:]
    return fm.Aff.placement(m, xr, rot, ox, oy)


def xf_line(kind, eid, t, g):
    k = t[0]
    if k == "translate":
        return "xf %s %s translate %s %s" % (kind, eid, fl(t[1] * g), fl(t[2] * g))
    if k == "scale":
        return "xf %s %s scale %s %s %s" % (kind, eid, fl(t[1]), fl(t[2] * g), fl(t[3] * g))
    if k == "scale2":
        return "xf %s %s scale2 %s %s %s %s" % (kind, eid, fl(t[1]), fl(t[2]), fl(t[3] * g), fl(t[4] * g))
    if k == "mirror":
        return "xf %s %s mirror %s %s %s %s" % (kind, eid, fl(t[1] * g), fl(t[2] * g), fl(t[3] * g), fl(t[4] * g))
    if k == "rotate":
        return "xf %s %s rotate %s %s %s" % (kind, eid, fl(t[1]), fl(t[2] * g), fl(t[3] * g))
    if kind == "rep":
        return "xf rep %s transform %s %d %s" % (eid, fl(t[1]), 1 if t[2] else 0, fl(t[3]))
    return "xf %s %s transform %s %d %s %s %s" % (kind, eid, fl(t[1]), 1 if t[2] else 0, fl(t[3]), fl(t[4] * g), fl(t[5] * g))


def aff_close(A, B, tol=1e-9):
    sc = max(1.0, abs(A.tx), abs(A.ty))
    return (abs(A.a - B.a) <= tol * max(1, abs(A.a)) and abs(A.b - B.b) <= tol * max(1, abs(A.b)) and abs(A.c - B.c) <= tol * max(1, abs(A.c)) and
            abs(A.d - B.d) <= tol * max(1, abs(A.d)) and abs(A.tx - B.tx) <= tol * sc and abs(A.ty - B.ty) <= tol * sc)


def check(ctx, case):
    kind, el, xfs = case["kind"], case["el"], case["xfs"]
    g = 1e-3
    lines = []
    M = fm.Aff()
    for t in xfs:
        M = matrix_of(t) * M
    reflections = sum(1 for t in xfs if (t[0] == "mirror") or (t[0] == "transform" and t[2]))
    sgn = -1.0 if reflections % 2 else 1.0
    smag = 1.0
    for t in xfs:
        if t[0] == "scale":
            smag *= abs(t[1])
        elif t[0] == "transform":
            smag *= abs(t[1])
    if kind == "poly":
        lines.append("poly new e %d %d %d %s" % (el["tag"][0], el["tag"][1], len(el["pts"]), " ".join(fl(v * g) for p in el["pts"] for v in p)))
    elif kind in ("fp", "rp"):
        lines += path_lines_bend("e", el, g)
        lines.append("%s topoly e 0 0 0 -" % kind)
        if kind == "rp":
            lines.append("rp eval e 4 0x0p+0 0 %s 0 0x1p+0 0 0x1.8p+0 0" % fl(0.37))
    elif kind == "label":
        lines.append("label new e %s %d %d %s %s %d %s %s %d" % (hx(el["text"]), el["tag"][0], el["tag"][1], fl(el["origin"][0] * g), fl(el["origin"][1] * g),
                                                                  el["anchor"], fl(el["rot"]), fl(el["mag"]), 1 if el["xr"] else 0))
    elif kind == "ref":
        lines.append("ref new e name %s %s %s %s %s %d" % (hx("X"), fl(el["origin"][0] * g), fl(el["origin"][1] * g), fl(el["rot"]), fl(el["mag"]), 1 if el["xr"] else 0))
    else:
        lines.append("rep set rep e %s" % lg.rep_spec(el["rep"], g))
    nbuild = len([l for l in lines if l.startswith(("fp topoly", "rp topoly", "rp eval"))])
    dk = kind
    for t in xfs:
        lines.append(xf_line(kind, "e", t, g))
    if kind == "rep":
        lines.append("rep offsets rep e")
    else:
        lines.append("dump %s e" % dk)
        if kind in ("fp", "rp"):
            lines.append("%s topoly e 0 0 0 -" % kind)
        if kind == "rp":
            lines.append("rp eval e 4 0x0p+0 0 %s 0 0x1p+0 0 0x1.8p+0 0" % fl(0.37))
    outs = ctx.run(lines, case)

    def fail(msg, e=None, o=None):
        raise Violation("%s after %s: %s" % (kind, xfs, msg), case, e, o, lines)
    if kind == "poly":
        got = [(x / g, y / g) for x, y in outs[0]["poly"]["pts"]]
        exp = [M((x, y)) for x, y in el["pts"]]
        sc = max([1.0] + [abs(v) for p in exp for v in p])
        if not fm.pts_close(exp, got, 1e-9 * sc):
            fail("vertices %s, the affine map gives %s" % (got[:3], exp[:3]), exp, got)
    elif kind in ("label", "ref"):
        d = outs[0][kind]
        got = fm.Aff.placement(d["mag"], d["xrefl"], d["rotation"], d["origin"][0] / g, d["origin"][1] / g)
        exp = M * fm.Aff.placement(el["mag"], el["xr"], el["rot"], el["origin"][0], el["origin"][1])
        if not aff_close(exp, got):
            fail("placement (mag %r, xrefl %s, rot %r, origin %s) is not the composition of the transforms with the original placement "
                 "(expected matrix [%g %g %g; %g %g %g])" % (d["mag"], d["xrefl"], d["rotation"], d["origin"], exp.a, exp.b, exp.tx, exp.c, exp.d, exp.ty))
        mags = el["mag"]
        for t in xfs:
            mags *= t[1]
        if abs(d["mag"] - mags) > 1e-12 * abs(mags) or d["xrefl"] != (el["xr"] ^ (reflections % 2 == 1)):
            fail("magnification %r / reflection %s, expected %r / %s" % (d["mag"], d["xrefl"], mags, el["xr"] ^ (reflections % 2 == 1)))
    elif kind == "rep":
        got = [(x / g, y / g) for x, y in outs[0]["offsets"]]
        exp = [M.linear(o) for o in repgen.offsets(el["rep"])]
        sc = max([1.0] + [abs(v) for p in exp for v in p])
        miss, rest = fm.match_multiset(exp, got, lambda a, b: abs(a[0] - b[0]) <= 1e-9 * sc and abs(a[1] - b[1]) <= 1e-9 * sc)
        if miss is not None or rest:
            fail("repetition vectors %s, the linear part gives %s" % (got[:4], exp[:4]), exp, got)
    elif kind == "fp":
        if outs[0]["err"] != 0:
            ctx.stats.note(case, False, ["outline_error"])
            return
        d = outs[1]["fp"]
        spine0 = el["spine"]
        exp_sp = [M((x, y)) for x, y in spine0]
        got_sp = [(x / g, y / g) for x, y in d["spine"]]
        sc = max([1.0] + [abs(v) for p in exp_sp for v in p])
        if len(got_sp) < len(exp_sp) or not fm.pts_close(exp_sp, got_sp[:len(exp_sp)], 1e-9 * sc) and len(got_sp) == len(exp_sp):
            fail("spine %s, expected %s" % (got_sp[:3], exp_sp[:3]), exp_sp, got_sp)
        for e, de in zip(el["els"], d["elements"]):
            hw = e["w"] / 2 * (smag if el["scale_width"] else 1.0)
            of = e["off"] * smag * sgn
            if any(abs(h[0] / g - hw) > 1e-9 * max(1, abs(hw)) for h in de["hwo"]):
                fail("half width %r, expected %r (scale_width=%s, |scale| %g)" % (de["hwo"][0][0] / g, hw, el["scale_width"], smag), hw, de["hwo"][0][0] / g)
            if any(abs(h[1] / g - of) > 1e-9 * max(1, abs(of)) for h in de["hwo"]):
                fail("offset %r, expected %r (offsets scale with |scale| %g and change sign with each of the %d reflections)" %
                     (de["hwo"][0][1] / g, of, smag, reflections), of, de["hwo"][0][1] / g)
            if e["end"] == "extended":
                ex = (e["ext"][0] * smag, e["ext"][1] * smag)
                if abs(de["ext"][0] / g - ex[0]) > 1e-9 * max(1, abs(ex[0])) or abs(de["ext"][1] / g - ex[1]) > 1e-9 * max(1, abs(ex[1])):
                    fail("end extensions %s, expected %s (lengths scale with |scale|)" % ([de["ext"][0] / g, de["ext"][1] / g], list(ex)), ex, de["ext"])
            if e.get("bend_radius"):
                br = e["bend_radius"] * smag
                if abs(de["bend_radius"] / g - br) > 1e-9 * br:
                    fail("bend radius %r, expected %r" % (de["bend_radius"] / g, br), br, de["bend_radius"] / g)
        if el["scale_width"] or abs(smag - 1) < 1e-12:
            compare_outlines(case, fail, outs[0]["result"], outs[2]["result"], M, g, el["tol"] * 3 * max(1.0, smag))
    else:
        if outs[0]["err"] != 0:
            ctx.stats.note(case, False, ["outline_error"])
            return
        ev0, ev1 = outs[1]["eval"], outs[4]["eval"]
        for a, b in zip(ev0, ev1):
            pa = M((a["pos"][0] / g, a["pos"][1] / g))
            pb = (b["pos"][0] / g, b["pos"][1] / g)
            sc = max(1.0, abs(pa[0]), abs(pa[1]))
            if abs(pa[0] - pb[0]) > 1e-8 * sc or abs(pa[1] - pb[1]) > 1e-8 * sc:
                fail("position() = %s, the mapped original position is %s" % (pb, pa), pa, pb)
            for i, e in enumerate(el["els"]):
                w = a["width"][i] / g * (smag if el["scale_width"] else 1.0)
                o = a["offset"][i] / g * smag * sgn
                if abs(b["width"][i] / g - w) > 1e-8 * max(1, abs(w)):
                    fail("width() = %r, expected %r (scale_width=%s)" % (b["width"][i] / g, w, el["scale_width"]), w, b["width"][i] / g)
                if abs(b["offset"][i] / g - o) > 1e-8 * max(1, abs(o)):
                    fail("offset() = %r, expected %r" % (b["offset"][i] / g, o), o, b["offset"][i] / g)
        d = outs[2]["rp"]
        for e, de in zip(el["els"], d["elements"]):
            if e["end"] == "extended":
                ex = (e["ext"][0] * smag, e["ext"][1] * smag)
                if abs(de["ext"][0] / g - ex[0]) > 1e-9 * max(1, abs(ex[0])) or abs(de["ext"][1] / g - ex[1]) > 1e-9 * max(1, abs(ex[1])):
                    fail("end extensions %s, expected %s (lengths scale with |scale|)" % ([de["ext"][0] / g, de["ext"][1] / g], list(ex)), ex, de["ext"])
        if outs[3]["err"] == 0 and (el["scale_width"] or abs(smag - 1) < 1e-12):
            compare_outlines(case, fail, outs[0]["result"], outs[3]["result"], M, g, el["tol"] * 4 * max(1.0, smag))
    oblique = any((t[0] == "rotate" and abs(t[1] / (math.pi / 2) - round(t[1] / (math.pi / 2))) > 1e-9) or
                  (t[0] == "transform" and abs(t[3] / (math.pi / 2) - round(t[3] / (math.pi / 2))) > 1e-9) for t in xfs)
    neg = any(t[0] in ("scale",) and t[1] < 0 for t in xfs) or any(t[0] == "scale2" and (t[1] < 0 or t[2] < 0) for t in xfs)
    offp = kind in ("fp", "rp") and any(e["off"] != 0 for e in el["els"])
    nt = (reflections > 0 and offp) or neg or (len(xfs) >= 3 and oblique)
    ctx.stats.note(case, nt, ["kind_" + kind, "n_xf_%d" % len(xfs)] + (["reflection+offset"] if reflections and offp else []) + (["negative_scale"] if neg else []))


def path_lines_bend(pid, p, g):
    lines = lg.path_lines(pid, p, g)
    if p["kind"] == "fp":
        out = []
        for l in lines:
            if l.startswith("fp elem "):
                idx = int(l.split()[3])
                br = p["els"][idx].get("bend_radius")
                if br:
                    parts = l.split()
                    parts[-2], parts[-1] = "1", fl(br * g)
                    l = " ".join(parts)
            out.append(l)
        lines = out
    return lines


def compare_outlines(case, fail, before, after, M, g, tol):
    exp = [{"tag": q["tag"], "pts": [M((x / g, y / g)) for x, y in q["pts"]]} for q in before]
    got = [{"tag": q["tag"], "pts": [(x / g, y / g) for x, y in q["pts"]]} for q in after]
    miss, rest = fm.match_multiset(exp, got, lambda a, b: a["tag"] == b["tag"] and (fm.outline_close(a["pts"], b["pts"], tol) or fm.region_close(a["pts"], b["pts"], tol)))
    if miss is not None:
        fail("outlining the transformed path does not give the transformed outline: expected a polygon near %s, got polygons starting %s" %
             ([tuple(round(v, 4) for v in p) for p in miss["pts"][:3]], [[tuple(round(v, 4) for v in p) for p in r["pts"][:2]] for r in rest[:2]]), miss["pts"][:6],
             [r["pts"][:6] for r in rest[:2]])
    if rest:
        fail("%d extra outline polygon(s) after the transforms" % len(rest))


def run_worker(ctx):
    n = 3000 if ctx.tier == "quick" else 50000
    v = ctx.hypothesis(check, case_strategy(), ctx.share(n), "transform")
    return [v] if v else []


def replay(ctx, test, case, ignore_known=False):
    return check(ctx, case)
