"""Independent OASIS (SEMI P39) codec written from DESIGN.md Appendix A.2: an encoder with explicit serialisation choices
(modal reuse, relative mode, point-list / repetition / real forms, name tables, CBLOCKs, padding) and a strict decoder.
Both work on an abstract layout in integer grid units; `denote` gives the placements a layout encodes."""
import math
import struct
import zlib
from fractions import Fraction

import oasnum as on

MAGIC = b"%SEMI-OASIS\r\n"

CTRAP = {
    0: lambda w, h: [(0, 0), (w, 0), (w - h, h), (0, h)], 1: lambda w, h: [(0, 0), (w - h, 0), (w, h), (0, h)],
    2: lambda w, h: [(0, 0), (w, 0), (w, h), (h, h)], 3: lambda w, h: [(h, 0), (w, 0), (w, h), (0, h)],
    4: lambda w, h: [(0, 0), (w, 0), (w - h, h), (h, h)], 5: lambda w, h: [(h, 0), (w - h, 0), (w, h), (0, h)],
    6: lambda w, h: [(0, 0), (w - h, 0), (w, h), (h, h)], 7: lambda w, h: [(h, 0), (w, 0), (w - h, h), (0, h)],
    8: lambda w, h: [(0, 0), (w, 0), (w, h - w), (0, h)], 9: lambda w, h: [(0, 0), (w, 0), (w, h), (0, h - w)],
    10: lambda w, h: [(0, 0), (w, w), (w, h), (0, h)], 11: lambda w, h: [(0, w), (w, 0), (w, h), (0, h)],
    12: lambda w, h: [(0, 0), (w, w), (w, h - w), (0, h)], 13: lambda w, h: [(0, w), (w, 0), (w, h), (0, h - w)],
    14: lambda w, h: [(0, 0), (w, w), (w, h), (0, h - w)], 15: lambda w, h: [(0, w), (w, 0), (w, h - w), (0, h)],
    16: lambda w, h: [(0, 0), (w, 0), (0, w)], 17: lambda w, h: [(0, 0), (w, w), (0, w)],
    18: lambda w, h: [(0, 0), (w, 0), (w, w)], 19: lambda w, h: [(0, w), (w, 0), (w, w)],
    20: lambda w, h: [(0, 0), (2 * h, 0), (h, h)], 21: lambda w, h: [(0, h), (h, 0), (2 * h, h)],
    22: lambda w, h: [(0, 0), (w, w), (0, 2 * w)], 23: lambda w, h: [(0, w), (w, 0), (w, 2 * w)],
    24: lambda w, h: [(0, 0), (w, 0), (w, h), (0, h)], 25: lambda w, h: [(0, 0), (w, 0), (w, w), (0, w)],
}
CTRAP_NO_H = {16, 17, 18, 19, 22, 23, 25}
CTRAP_NO_W = {20, 21}


def trapezoid_pts(w, h, da, db, vertical):
    if not vertical:
        return [(max(-da, 0), 0), (w - max(db, 0), 0), (w + min(db, 0), h), (max(da, 0), h)]
    return [(0, max(da, 0)), (w, max(-da, 0)), (w, h - max(db, 0)), (0, h + min(db, 0))]


def rep_offsets(rep):
    """offsets (incl. the original at (0,0)) denoted by a repetition given in OASIS terms"""
    if rep is None:
        return [(0, 0)]
    t = rep["t"]
    if t == 1:
        return [(i * rep["dx"], j * rep["dy"]) for i in range(rep["nx"]) for j in range(rep["ny"])]
    if t == 2:
        return [(i * rep["dx"], 0) for i in range(rep["nx"])]
    if t == 3:
        return [(0, j * rep["dy"]) for j in range(rep["ny"])]
    if t in (4, 5, 6, 7):
        g = rep.get("grid", 1)
        out = [(0, 0)]
        acc = 0
        for s in rep["spaces"]:
            acc += s * g
            out.append((acc, 0) if t in (4, 5) else (0, acc))
        return out
    if t == 8:
        return [(i * rep["n"][0] + j * rep["m"][0], i * rep["n"][1] + j * rep["m"][1]) for i in range(rep["nn"]) for j in range(rep["nm"])]
    if t == 9:
        return [(i * rep["n"][0], i * rep["n"][1]) for i in range(rep["nn"])]
    g = rep.get("grid", 1)
    out = [(0, 0)]
    x = y = 0
    for dx, dy in rep["disp"]:
        x += dx * g
        y += dy * g
        out.append((x, y))
    return out


def enc_rep(rep, gform=None):
    t = rep["t"]
    out = bytearray([t])
    if t == 1:
        out += on.enc_uint(rep["nx"] - 2) + on.enc_uint(rep["ny"] - 2) + on.enc_uint(rep["dx"]) + on.enc_uint(rep["dy"])
    elif t == 2:
        out += on.enc_uint(rep["nx"] - 2) + on.enc_uint(rep["dx"])
    elif t == 3:
        out += on.enc_uint(rep["ny"] - 2) + on.enc_uint(rep["dy"])
    elif t in (4, 6):
        out += on.enc_uint(len(rep["spaces"]) - 1)
        for s in rep["spaces"]:
            out += on.enc_uint(s)
    elif t in (5, 7):
        out += on.enc_uint(len(rep["spaces"]) - 1) + on.enc_uint(rep["grid"])
        for s in rep["spaces"]:
            out += on.enc_uint(s)
    elif t == 8:
        out += on.enc_uint(rep["nn"] - 2) + on.enc_uint(rep["nm"] - 2) + on.enc_gdelta(*rep["n"], form=gform) + on.enc_gdelta(*rep["m"], form=gform)
    elif t == 9:
        out += on.enc_uint(rep["nn"] - 2) + on.enc_gdelta(*rep["n"], form=gform)
    elif t == 10:
        out += on.enc_uint(len(rep["disp"]) - 1)
        for d in rep["disp"]:
            out += on.enc_gdelta(*d, form=gform)
    elif t == 11:
        out += on.enc_uint(len(rep["disp"]) - 1) + on.enc_uint(rep["grid"])
        for d in rep["disp"]:
            out += on.enc_gdelta(*d, form=gform)
    return bytes(out)


def dec_rep(r):
    t = r.byte()
    if t == 0:
        return "reuse"
    if t == 1:
        nx, ny = on.dec_uint(r) + 2, on.dec_uint(r) + 2
        return {"t": 1, "nx": nx, "ny": ny, "dx": on.dec_uint(r), "dy": on.dec_uint(r)}
    if t == 2:
        nx = on.dec_uint(r) + 2
        return {"t": 2, "nx": nx, "dx": on.dec_uint(r)}
    if t == 3:
        ny = on.dec_uint(r) + 2
        return {"t": 3, "ny": ny, "dy": on.dec_uint(r)}
    if t in (4, 6):
        n = on.dec_uint(r) + 1
        return {"t": t, "spaces": [on.dec_uint(r) for _ in range(n)]}
    if t in (5, 7):
        n = on.dec_uint(r) + 1
        g = on.dec_uint(r)
        return {"t": t, "grid": g, "spaces": [on.dec_uint(r) for _ in range(n)]}
    if t == 8:
        nn, nm = on.dec_uint(r) + 2, on.dec_uint(r) + 2
        return {"t": 8, "nn": nn, "nm": nm, "n": on.dec_gdelta(r), "m": on.dec_gdelta(r)}
    if t == 9:
        nn = on.dec_uint(r) + 2
        return {"t": 9, "nn": nn, "n": on.dec_gdelta(r)}
    if t == 10:
        n = on.dec_uint(r) + 1
        return {"t": 10, "disp": [on.dec_gdelta(r) for _ in range(n)]}
    if t == 11:
        n = on.dec_uint(r) + 1
        g = on.dec_uint(r)
        return {"t": 11, "grid": g, "disp": [on.dec_gdelta(r) for _ in range(n)]}
    raise ValueError("repetition type %d" % t)


def enc_str(b):
    return on.enc_uint(len(b)) + b


def enc_real_value(v, kind):
    """v: int, Fraction or float; kind chosen by the caller among exact_real_kinds(v)"""
    if kind in (0, 1):
        return on.enc_real(kind, abs(int(v)))
    if kind in (2, 3):
        return on.enc_real(kind, abs(Fraction(v).denominator))
    if kind in (4, 5):
        f = Fraction(v)
        return on.enc_real(kind, abs(f.numerator), f.denominator)
    if kind == 6:
        return on.enc_real(6, float(v))
    return on.enc_real(7, float(v))


def exact_real_kinds(v):
    """encodings that denote exactly the double value float(v)"""
    f = Fraction(v)
    kinds = [7]
    try:
        if struct.unpack("<f", struct.pack("<f", float(v)))[0] == float(v):
            kinds.append(6)
    except OverflowError:
        pass
    if f.denominator == 1 and abs(f.numerator) < 2 ** 63:
        kinds.append(0 if f >= 0 else 1)
    if abs(f.numerator) == 1 and f.denominator != 1 and f.denominator < 2 ** 63 and Fraction(float(f)) == f:
        kinds.append(2 if f > 0 else 3)
    if f.denominator != 1 and abs(f.numerator) < 2 ** 40 and f.denominator < 2 ** 40 and Fraction(float(f)) == f:
        kinds.append(4 if f > 0 else 5)
    return kinds


# =============================================================================================== encoder
class Chooser:
    def __init__(self, seq):
        self.seq = list(seq) or [0]
        self.i = 0
        self.used = {}

    def pick(self, n, what=None):
        v = self.seq[self.i % len(self.seq)] % n
        self.i += 1
        if what and v:
            self.used[what] = self.used.get(what, 0) + 1
        return v

    def flag(self, what=None):
        return self.pick(2, what) == 1


def prop_values_bytes(values, ch, strtab):
    out = bytearray()
    for t, v in values:
        if t == "r":
            k = exact_real_kinds(v)
            kind = k[ch.pick(len(k))]
            out += enc_real_value(v, kind)
        elif t == "u":
            out += bytes([8]) + on.enc_uint(v)
        elif t == "i":
            out += bytes([9]) + on.enc_sint(v)
        else:
            b = bytes.fromhex(v)
            kinds = [11]
            if all(0x20 <= c <= 0x7E for c in b):
                kinds.append(10)
                if b and all(0x21 <= c <= 0x7E for c in b):
                    kinds.append(12)
            kd = kinds[ch.pick(len(kinds))]
            if strtab is not None and ch.flag("propstring_reference"):
                out += bytes([kd + 3]) + on.enc_uint(strtab.ref(b))
            else:
                out += bytes([kd]) + enc_str(b)
    return bytes(out)


class Table:
    """name table with implicit or explicit numbering"""

    def __init__(self, explicit, sparse):
        self.items = []
        self.explicit = explicit
        self.sparse = sparse

    def ref(self, b):
        for i, x in enumerate(self.items):
            if x == b:
                return self.number(i)
        self.items.append(b)
        return self.number(len(self.items) - 1)

    def number(self, i):
        return i * 3 + 5 if (self.explicit and self.sparse) else i

    def records(self, rid_implicit):
        out = bytearray()
        order = list(range(len(self.items)))
        if self.explicit:
            order = order[::-1]          # explicit numbers may come in any order
        for i in order:
            if self.explicit:
                out += bytes([rid_implicit + 1]) + enc_str(self.items[i]) + on.enc_uint(self.number(i))
            else:
                out += bytes([rid_implicit]) + enc_str(self.items[i])
        return bytes(out)


def encode(layout, choices):
    """layout: dict(unit=<grid steps per micron>, props=[...], cells=[dict(name, props, elements)]) -> (bytes, stats)"""
    ch = Chooser(choices)
    strict = ch.flag("offsets_in_end")        # offset-flag 1: table offsets in END
    tables_first = ch.flag("tables_before_cells")
    cellnames = Table(ch.flag("explicit_cellname_numbers"), ch.flag())
    textstrings = Table(ch.flag("explicit_textstring_numbers"), ch.flag())
    propnames = Table(ch.flag("explicit_propname_numbers"), ch.flag())
    propstrings = Table(ch.flag("explicit_propstring_numbers"), ch.flag())
    use_cell_refs = ch.flag("cell_by_reference")
    body = bytearray()

    def emit_props(props, modal):
        out = bytearray()
        for p in props:
            if modal.get("last_prop") == (p["name"], tuple(map(tuple, p["values"])), p.get("std", False)) and ch.flag("property_repeat_record"):
                out += bytes([29])
                continue
            info = 0
            name_b = p["name"].encode("latin-1")
            write_name = not (modal.get("prop_name") == p["name"] and ch.flag("property_name_reuse"))
            by_ref = False
            if write_name:
                info |= 0x04
                by_ref = ch.flag("propname_reference")
                if by_ref:
                    info |= 0x02
            reuse_values = modal.get("prop_values") == tuple(map(tuple, p["values"])) and ch.flag("property_value_list_reuse")
            n = len(p["values"])
            if reuse_values:
                info |= 0x08
            else:
                info |= (15 if (n >= 15 or ch.flag("property_explicit_count")) else n) << 4
            if p.get("std"):
                info |= 0x01
            out += bytes([28, info])
            if write_name:
                out += on.enc_uint(propnames.ref(name_b)) if by_ref else enc_str(name_b)
            if not reuse_values:
                if (info >> 4) == 15:
                    out += on.enc_uint(n)
                out += prop_values_bytes(p["values"], ch, propstrings)
            modal["prop_name"] = p["name"]
            modal["prop_values"] = tuple(map(tuple, p["values"]))
            modal["last_prop"] = (p["name"], modal["prop_values"], p.get("std", False))
        return bytes(out)

    def noise():
        k = ch.pick(12)
        if k == 0:
            return bytes([0]) * (1 + ch.pick(3))                                   # PAD
        if k == 1:
            return bytes([32]) + on.enc_uint(7) + enc_str(b"opaque")              # XELEMENT
        if k == 2:
            return bytes([11]) + enc_str(b"METAL") + bytes([0]) + bytes([3]) + on.enc_uint(5)   # LAYERNAME: all layers, datatype 5
        return b""

    file_modal = {}
    head_props = emit_props(layout.get("props", []), file_modal)
    cells_bytes = bytearray()
    for c in layout["cells"]:
        rec = bytearray()
        name_b = c["name"].encode("latin-1")
        if use_cell_refs:
            rec += bytes([13]) + on.enc_uint(cellnames.ref(name_b))
        else:
            rec += bytes([14]) + enc_str(name_b)
        m = {"abs": True, "gx": 0, "gy": 0, "tx": 0, "ty": 0, "px": 0, "py": 0}
        rec += emit_props(c.get("props", []), m)
        for e in c["elements"]:
            rec += noise()
            if ch.pick(5) == 0:
                m["abs"] = not m["abs"]
                rec += bytes([15 if m["abs"] else 16])
            rec += encode_element(e, m, ch, cellnames, textstrings)
            rec += emit_props(e.get("props", []), m)
        # CBLOCK around the whole cell body (records only, CELL included) - or around parts
        if ch.pick(3) == 0:
            comp = zlib.compressobj(1 + ch.pick(9), zlib.DEFLATED, -15)
            data = comp.compress(bytes(rec)) + comp.flush()
            rec = bytearray(bytes([34, 0]) + on.enc_uint(len(rec)) + on.enc_uint(len(data)) + data)
            ch.used["cblock"] = ch.used.get("cblock", 0) + 1
        cells_bytes += rec

    def table_bytes():
        return [cellnames.records(3), textstrings.records(5), propnames.records(7), propstrings.records(9)]
    out = bytearray(MAGIC)
    unit = layout["unit"]
    uk = exact_real_kinds(unit)
    start = bytearray([1]) + enc_str(b"1.0") + enc_real_value(unit, uk[ch.pick(len(uk))]) + on.enc_uint(1 if strict else 0)
    # offsets are filled after layout of the file is known: do two passes with fixed-width (padded) uints
    def offsets_field(offs):
        b = bytearray()
        for k in range(6):
            flag, off = offs[k]
            b += on.enc_uint(flag) + on.enc_uint(off, pad=max(0, 5 - len(on.enc_uint(off))))
        return bytes(b)
    dummy = [(0, 0)] * 6
    tabs = table_bytes()
    # table positions
    if not strict:
        start_len = len(out) + len(start) + len(offsets_field(dummy))
    else:
        start_len = len(out) + len(start)
    pos = start_len + len(head_props)
    offs = [(0, 0)] * 6
    if tables_first:
        offs = []
        p = pos
        for tb in tabs:
            offs.append((1 if tb else 0, p if tb else 0))
            p += len(tb)
        offs += [(0, 0), (0, 0)]
    else:
        offs = []
        p = pos + len(cells_bytes)
        for tb in tabs:
            offs.append((1 if tb else 0, p if tb else 0))
            p += len(tb)
        offs += [(0, 0), (0, 0)]
    # the strict flag claims "all records of this kind are in the table": true here; it may also be declared non-strict
    offs = [((f if ch.flag() else 0), o) for f, o in offs]
    out += start
    if not strict:
        out += offsets_field(offs)
    out += head_props
    if tables_first:
        for tb in tabs:
            out += tb
        out += cells_bytes
    else:
        out += cells_bytes
        for tb in tabs:
            out += tb
    end = bytearray([2])
    if strict:
        end += offsets_field(offs)
    scheme = ch.pick(3)
    tail = 1 + (4 if scheme else 0)
    padlen = 256 - len(end) - tail
    # padding b-string: its length prefix is part of the 256 bytes
    l = padlen - 1 if padlen - 1 < 128 else padlen - 2
    end += on.enc_uint(l) + bytes(l)
    end += bytes([scheme])
    out += end
    if scheme == 1:
        out += struct.pack("<I", zlib.crc32(bytes(out)) & 0xFFFFFFFF)
    elif scheme == 2:
        out += struct.pack("<I", sum(out) & 0xFFFFFFFF)
    return bytes(out), ch.used


def encode_element(e, m, ch, cellnames, textstrings):
    """one element record; m = modal state of the cell (updated)"""
    k = e["k"]
    out = bytearray()

    def want(field, value, what):
        """True -> write the field; False -> rely on the modal variable (only legal when it already has that value)"""
        if field in m and m[field] == value and ch.flag(what):
            return False
        m[field] = value
        return True

    def xy(prefix, x, y):
        wx = not (m[prefix + "x"] == x and ch.flag("x_modal"))
        wy = not (m[prefix + "y"] == y and ch.flag("y_modal"))
        bx = on.enc_sint(x if m["abs"] else x - m[prefix + "x"]) if wx else b""
        by = on.enc_sint(y if m["abs"] else y - m[prefix + "y"]) if wy else b""
        if not m["abs"] and (wx or wy):
            ch.used["relative_position"] = ch.used.get("relative_position", 0) + 1
        m[prefix + "x"], m[prefix + "y"] = x, y
        return wx, wy, bx, by

    def rep_field():
        rep = e.get("rep")
        if rep is None:
            return False, b""
        key = repr(sorted(rep.items()))
        if m.get("rep") == key and ch.flag("repetition_reuse"):
            return True, bytes([0])
        m["rep"] = key
        return True, enc_rep(rep, gform=None if ch.flag() else 1)
    if k == "place":
        simple = e["mag"] == 1 and e["angle"] in (0, 90, 180, 270) and not ch.flag("placement_general_form")
        name_b = e["cell"].encode("latin-1")
        wc = want("pcell", e["cell"], "placement_cell_modal")
        by_ref = wc and ch.flag("placement_by_reference")
        wx, wy, bx, by = xy("p", e["x"], e["y"])
        hr, br = rep_field()
        info = (0x80 if wc else 0) | (0x40 if by_ref else 0) | (0x20 if wx else 0) | (0x10 if wy else 0) | (0x08 if hr else 0) | (1 if e["flip"] else 0)
        if simple:
            info |= (e["angle"] // 90) << 1
            out += bytes([17, info])
            if wc:
                out += on.enc_uint(cellnames.ref(name_b)) if by_ref else enc_str(name_b)
        else:
            wm = e["mag"] != 1 or ch.flag()
            wa = e["angle"] != 0 or ch.flag()
            info |= (0x04 if wm else 0) | (0x02 if wa else 0)
            out += bytes([18, info])
            if wc:
                out += on.enc_uint(cellnames.ref(name_b)) if by_ref else enc_str(name_b)
            if wm:
                kk = exact_real_kinds(e["mag"])
                out += enc_real_value(e["mag"], kk[ch.pick(len(kk))])
            if wa:
                kk = exact_real_kinds(e["angle"])
                out += enc_real_value(e["angle"], kk[ch.pick(len(kk))])
        return bytes(out + bx + by + br)
    if k == "text":
        s_b = e["string"].encode("latin-1")
        wc = want("tstring", e["string"], "text_string_modal")
        by_ref = wc and ch.flag("text_by_reference")
        wl = want("tlayer", e["layer"], "textlayer_modal")
        wt = want("ttype", e["dt"], "texttype_modal")
        wx, wy, bx, by = xy("t", e["x"], e["y"])
        hr, br = rep_field()
        info = (0x40 if wc else 0) | (0x20 if by_ref else 0) | (0x10 if wx else 0) | (0x08 if wy else 0) | (0x04 if hr else 0) | (0x02 if wt else 0) | (0x01 if wl else 0)
        out += bytes([19, info])
        if wc:
            out += on.enc_uint(textstrings.ref(s_b)) if by_ref else enc_str(s_b)
        if wl:
            out += on.enc_uint(e["layer"])
        if wt:
            out += on.enc_uint(e["dt"])
        return bytes(out + bx + by + br)
    wl = want("layer", e["layer"], "layer_modal")
    wd = want("dt", e["dt"], "datatype_modal")
    L = on.enc_uint(e["layer"]) if wl else b""
    D = on.enc_uint(e["dt"]) if wd else b""
    base = (0x02 if wd else 0) | (0x01 if wl else 0)
    if k == "rect":
        square = e["w"] == e["h"] and ch.flag("square_bit")
        ww = want("gw", e["w"], "width_modal")
        if square:
            wh = False
            m["gh"] = e["w"]
        else:
            wh = want("gh", e["h"], "height_modal")
        wx, wy, bx, by = xy("g", e["x"], e["y"])
        hr, br = rep_field()
        info = base | (0x80 if square else 0) | (0x40 if ww else 0) | (0x20 if wh else 0) | (0x10 if wx else 0) | (0x08 if wy else 0) | (0x04 if hr else 0)
        out += bytes([20, info]) + L + D
        if ww:
            out += on.enc_uint(e["w"])
        if wh:
            out += on.enc_uint(e["h"])
        return bytes(out + bx + by + br)
    if k == "poly":
        verts = [(0, 0)] + [tuple(p) for p in e["pts"]]
        key = repr(e["pts"])
        wp = not (m.get("ppl") == key and ch.flag("polygon_pointlist_modal"))
        m["ppl"] = key
        pl = b""
        if wp:
            deltas = [(b[0] - a[0], b[1] - a[1]) for a, b in zip(verts[:-1], verts[1:])]
            types = on.plist_types_for(deltas)
            # manhattan lists with an implicit closing vertex
            alt = manhattan_type(verts)
            if alt is not None:
                types = types + [alt]
            t = types[ch.pick(len(types))]
            if t in (0, 1):
                pl = on.enc_plist(t, deltas[:-1])
                ch.used["pointlist_manhattan_implicit"] = ch.used.get("pointlist_manhattan_implicit", 0) + 1
            else:
                pl = on.enc_plist(t, deltas, gform=None if ch.flag() else 1)
                ch.used["pointlist_type_%d" % t] = ch.used.get("pointlist_type_%d" % t, 0) + 1
        wx, wy, bx, by = xy("g", e["x"], e["y"])
        hr, br = rep_field()
        info = base | (0x20 if wp else 0) | (0x10 if wx else 0) | (0x08 if wy else 0) | (0x04 if hr else 0)
        return bytes(out + bytes([21, info]) + L + D + pl + bx + by + br)
    if k == "path":
        whw = want("phw", e["hw"], "path_halfwidth_modal")
        # extension scheme
        ss = ee = 0
        extb = b""
        for which, (kind, val) in enumerate(e["ext"]):
            eff = {"flush": 0, "half": e["hw"], "explicit": val}[kind]
            field = "pes" if which == 0 else "pee"
            if m.get(field) == eff and ch.flag("path_extension_modal"):
                code = 0
            else:
                code = {"flush": 1, "half": 2, "explicit": 3}[kind]
                if code == 3:
                    extb += on.enc_sint(val)
            m[field] = eff
            if which == 0:
                ss = code
            else:
                ee = code
        we = (ss or ee) != 0
        key = repr(e["pts"])
        wp = not (m.get("wpl") == key and ch.flag("path_pointlist_modal"))
        m["wpl"] = key
        pl = b""
        if wp:
            verts = [(0, 0)] + [tuple(p) for p in e["pts"]]
            deltas = [(b[0] - a[0], b[1] - a[1]) for a, b in zip(verts[:-1], verts[1:])]
            types = on.plist_types_for(deltas)
            if all((d[0] == 0) != (d[1] == 0) for d in deltas):
                if all((deltas[i][1] == 0) == (i % 2 == 0) for i in range(len(deltas))):
                    types = types + [0]
                if all((deltas[i][0] == 0) == (i % 2 == 0) for i in range(len(deltas))):
                    types = types + [1]
            t = types[ch.pick(len(types))]
            pl = on.enc_plist(t, deltas, gform=None if ch.flag() else 1)
            ch.used["path_pointlist_type_%d" % t] = ch.used.get("path_pointlist_type_%d" % t, 0) + 1
        wx, wy, bx, by = xy("g", e["x"], e["y"])
        hr, br = rep_field()
        info = base | (0x80 if we else 0) | (0x40 if whw else 0) | (0x20 if wp else 0) | (0x10 if wx else 0) | (0x08 if wy else 0) | (0x04 if hr else 0)
        out += bytes([22, info]) + L + D
        if whw:
            out += on.enc_uint(e["hw"])
        if we:
            out += bytes([(ss << 2) | ee]) + extb
        return bytes(out + pl + bx + by + br)
    if k == "trap":
        ww = want("gw", e["w"], "width_modal")
        wh = want("gh", e["h"], "height_modal")
        wx, wy, bx, by = xy("g", e["x"], e["y"])
        hr, br = rep_field()
        info = base | (0x80 if e["vert"] else 0) | (0x40 if ww else 0) | (0x20 if wh else 0) | (0x10 if wx else 0) | (0x08 if wy else 0) | (0x04 if hr else 0)
        if e["db"] == 0 and ch.flag("trapezoid_a_only"):
            rid = 24
        elif e["da"] == 0 and ch.flag("trapezoid_b_only"):
            rid = 25
        else:
            rid = 23
        out += bytes([rid, info]) + L + D
        if ww:
            out += on.enc_uint(e["w"])
        if wh:
            out += on.enc_uint(e["h"])
        if rid in (23, 24):
            out += on.enc_sint(e["da"])
        if rid in (23, 25):
            out += on.enc_sint(e["db"])
        return bytes(out + bx + by + br)
    if k == "ctrap":
        t = e["type"]
        wt = want("ctt", t, "ctrapezoid_type_modal")
        ww = wh = False
        if t not in CTRAP_NO_W:
            ww = want("gw", e["w"], "width_modal")
        if t not in CTRAP_NO_H:
            wh = want("gh", e["h"], "height_modal")
        # modal width/height after a record that does not carry one of them are not relied upon afterwards
        if t in CTRAP_NO_W:
            m.pop("gw", None)
        if t in CTRAP_NO_H:
            m.pop("gh", None)
        wx, wy, bx, by = xy("g", e["x"], e["y"])
        hr, br = rep_field()
        info = base | (0x80 if wt else 0) | (0x40 if ww else 0) | (0x20 if wh else 0) | (0x10 if wx else 0) | (0x08 if wy else 0) | (0x04 if hr else 0)
        out += bytes([26, info]) + L + D
        if wt:
            out += on.enc_uint(t)
        if ww:
            out += on.enc_uint(e["w"])
        if wh:
            out += on.enc_uint(e["h"])
        return bytes(out + bx + by + br)
    if k == "circle":
        wr = want("cr", e["r"], "circle_radius_modal")
        wx, wy, bx, by = xy("g", e["x"], e["y"])
        hr, br = rep_field()
        info = base | (0x20 if wr else 0) | (0x10 if wx else 0) | (0x08 if wy else 0) | (0x04 if hr else 0)
        out += bytes([27, info]) + L + D
        if wr:
            out += on.enc_uint(e["r"])
        return bytes(out + bx + by + br)
    raise ValueError(k)


def manhattan_type(verts):
    """0/1 if the closed polygon alternates horizontal/vertical edges (incl. the two closing ones), else None"""
    n = len(verts)
    if n < 4 or n % 2:
        return None
    edges = [(verts[(i + 1) % n][0] - verts[i][0], verts[(i + 1) % n][1] - verts[i][1]) for i in range(n)]
    if any((dx == 0) == (dy == 0) for dx, dy in edges):
        return None
    if all((edges[i][1] == 0) == (i % 2 == 0) for i in range(n)):
        return 0
    if all((edges[i][0] == 0) == (i % 2 == 0) for i in range(n)):
        return 1
    return None


# =============================================================================================== denotation
def circle_pts(r, n=64):
    return [(r * math.cos(2 * math.pi * i / n), r * math.sin(2 * math.pi * i / n)) for i in range(n)]


def element_shape(e):
    """(kind, data) in coordinates relative to the element position"""
    k = e["k"]
    if k == "rect":
        return "poly", [(0, 0), (e["w"], 0), (e["w"], e["h"]), (0, e["h"])]
    if k == "poly":
        return "poly", [(0, 0)] + [tuple(p) for p in e["pts"]]
    if k == "trap":
        return "poly", trapezoid_pts(e["w"], e["h"], e["da"], e["db"], e["vert"])
    if k == "ctrap":
        return "poly", CTRAP[e["type"]](e.get("w", 0), e.get("h", 0))
    if k == "circle":
        return "circle", e["r"]
    return k, None


def denote(layout):
    """per cell: expected placements in the form pbt/oasmodel.compare_expanded takes"""
    out = []
    for c in layout["cells"]:
        polys, paths, labels, refs = [], [], [], []
        for e in c["elements"]:
            props = [(p["name"], [(t, v) for t, v in p["values"]]) for p in e.get("props", [])]
            kind, data = element_shape(e)
            for ox, oy in rep_offsets(e.get("rep")):
                px, py = e["x"] + ox, e["y"] + oy
                if kind == "poly":
                    polys.append({"tag": [e["layer"], e["dt"]], "pts": [(x + px, y + py) for x, y in data], "props": props, "tol": 1e-6, "circle": None})
                elif kind == "circle":
                    polys.append({"tag": [e["layer"], e["dt"]], "pts": [(x + px, y + py) for x, y in circle_pts(data)], "props": props, "tol": 1e-6, "circle": data})
                elif kind == "path":
                    sp = [(px, py)] + [(x + px, y + py) for x, y in e["pts"]]
                    ext = []
                    for kk, v in e["ext"]:
                        ext.append({"flush": 0, "half": e["hw"], "explicit": v}[kk])
                    paths.append({"tag": [e["layer"], e["dt"]], "spine": sp, "base": sp, "off": (0, 0), "w": 2 * e["hw"], "end": "extended", "ext": ext, "props": props, "tol": 1e-6})
                elif kind == "text":
                    labels.append({"text": e["string"], "tag": [e["layer"], e["dt"]], "pos": (px, py), "props": props, "tol": 1e-6})
                else:
                    refs.append({"target": e["cell"], "pos": (px, py), "rot": math.radians(e["angle"]), "mag": float(e["mag"]), "xr": e["flip"], "props": props, "tol": 1e-6,
                                 "resolved": any(cc["name"] == e["cell"] for cc in layout["cells"])})
        out.append({"name": c["name"], "polys": polys, "paths": paths, "labels": labels, "refs": refs,
                    "props": [(p["name"], [(t, v) for t, v in p["values"]]) for p in c.get("props", [])]})
    return out


# =============================================================================================== strict decoder
class Bad(Exception):
    pass


def decode(data):
    """strict decoder.  Returns dict(unit, cells=[dict(name, props, elements, offset)], props, tables, end, facts)"""
    if data[:len(MAGIC)] != MAGIC:
        raise Bad("magic")
    r = on.Reader(data, len(MAGIC))
    if r.byte() != 1:
        raise Bad("START expected")
    ver = r.take(on.dec_uint(r))
    if ver != b"1.0":
        raise Bad("version %r" % ver)
    unit = on.dec_real(r)
    oflag = on.dec_uint(r)
    offsets = None
    if oflag == 0:
        offsets = [(on.dec_uint(r), on.dec_uint(r)) for _ in range(6)]
    elif oflag != 1:
        raise Bad("offset-flag %d" % oflag)
    res = {"unit": unit, "offset_flag": oflag, "cells": [], "props": [], "cellnames": {}, "textstrings": {}, "propnames": {}, "propstrings": {},
           "cellname_props": {}, "positions": {3: [], 5: [], 7: [], 9: []}, "records": {}, "implicit": {}, "cblocks": 0}
    state = {"cell": None, "modal": {}, "target": ("file", None), "last_prop": None}
    counters = {3: 0, 5: 0, 7: 0, 9: 0}

    def parse_stream(rr, base_pos):
        while True:
            pos = rr.p
            rid = rr.byte()
            res["records"][rid] = res["records"].get(rid, 0) + 1
            if rid == 0:
                continue
            if rid == 2:
                return pos
            if rid == 34:
                if base_pos is None:
                    raise Bad("nested CBLOCK")
                ctype = on.dec_uint(rr)
                ulen = on.dec_uint(rr)
                clen = on.dec_uint(rr)
                if ctype != 0:
                    raise Bad("CBLOCK compression type %d" % ctype)
                raw = zlib.decompressobj(-15).decompress(rr.take(clen))
                if len(raw) != ulen:
                    raise Bad("CBLOCK uncompressed length %d, header says %d" % (len(raw), ulen))
                res["cblocks"] += 1
                inner = on.Reader(raw, 0)
                try:
                    parse_stream(inner, None)
                except on.Short:
                    if inner.p != len(raw):
                        raise Bad("CBLOCK ends inside a record")
                continue
            handle(rid, rr, pos if base_pos is not None else None)

    def name_record(rid, rr, pos):
        kind = {3: "cellnames", 4: "cellnames", 5: "textstrings", 6: "textstrings", 7: "propnames", 8: "propnames", 9: "propstrings", 10: "propstrings"}[rid]
        base = rid if rid % 2 else rid - 1
        s = rr.take(on.dec_uint(rr))
        explicit = rid % 2 == 0
        if base in res["implicit"] and res["implicit"][base] != (not explicit):
            raise Bad("implicit and explicit numbering mixed in table %s" % kind)
        res["implicit"][base] = not explicit
        if explicit:
            num = on.dec_uint(rr)
        else:
            num = counters[base]
            counters[base] += 1
        if num in res[kind]:
            raise Bad("%s number %d defined twice" % (kind, num))
        res[kind][num] = s
        if pos is not None:
            res["positions"][base].append(pos)
        state["target"] = (kind, num)

    def handle(rid, rr, pos):
        m = state["modal"]
        if rid in (3, 4, 5, 6, 7, 8, 9, 10):
            return name_record(rid, rr, pos)
        if rid in (11, 12):
            rr.take(on.dec_uint(rr))
            for _ in range(2):
                it = on.dec_uint(rr)
                if it in (1, 2, 3):
                    on.dec_uint(rr)
                elif it == 4:
                    on.dec_uint(rr)
                    on.dec_uint(rr)
                elif it != 0:
                    raise Bad("interval type %d" % it)
            return
        if rid in (13, 14):
            if rid == 13:
                cell = {"ref": on.dec_uint(rr)}
            else:
                cell = {"name": rr.take(on.dec_uint(rr))}
            cell.update({"elements": [], "props": [], "offset": pos})
            res["cells"].append(cell)
            state["cell"] = cell
            state["modal"] = {"abs": True, "gx": 0, "gy": 0, "tx": 0, "ty": 0, "px": 0, "py": 0}
            state["target"] = ("cell", cell)
            return
        if rid == 15:
            m["abs"] = True
            return
        if rid == 16:
            m["abs"] = False
            return
        if rid in (28, 29):
            return prop_record(rid, rr)
        if rid in (30, 31):
            on.dec_uint(rr)
            rr.take(on.dec_uint(rr))
            if rid == 31:
                on.dec_uint(rr)
            return
        if rid == 32:
            on.dec_uint(rr)
            rr.take(on.dec_uint(rr))
            return
        if state["cell"] is None:
            raise Bad("record %d outside a cell" % rid)
        e = element_record(rid, rr, m)
        state["cell"]["elements"].append(e)
        state["target"] = ("element", e)

    def getmodal(m, key, what):
        if key not in m:
            raise Bad("modal variable %s used before it was set" % what)
        return m[key]

    def pos_xy(m, prefix, hx, hy, rr):
        if hx:
            v = on.dec_sint(rr)
            m[prefix + "x"] = v if m["abs"] else m[prefix + "x"] + v
        if hy:
            v = on.dec_sint(rr)
            m[prefix + "y"] = v if m["abs"] else m[prefix + "y"] + v
        return m[prefix + "x"], m[prefix + "y"]

    def rep_of(m, has, rr):
        if not has:
            return None
        rp = dec_rep(rr)
        if rp == "reuse":
            return getmodal(m, "rep", "repetition")
        m["rep"] = rp
        return rp

    def element_record(rid, rr, m):
        info = rr.byte()
        if rid in (17, 18):
            if info & 0x80:
                if info & 0x40:
                    m["pcell"] = ("ref", on.dec_uint(rr))
                else:
                    m["pcell"] = ("name", rr.take(on.dec_uint(rr)))
            cellref = getmodal(m, "pcell", "placement-cell")
            mag, ang = Fraction(1), Fraction(0)
            if rid == 17:
                ang = Fraction(90 * ((info >> 1) & 3))
            else:
                if info & 0x04:
                    mag = on.dec_real(rr)
                if info & 0x02:
                    ang = on.dec_real(rr)
            x, y = pos_xy(m, "p", info & 0x20, info & 0x10, rr)
            rp = rep_of(m, info & 0x08, rr)
            return {"k": "place", "cellref": cellref, "x": x, "y": y, "mag": mag, "angle": ang, "flip": bool(info & 1), "rep": rp, "props": []}
        if rid == 19:
            if info & 0x80:
                raise Bad("TEXT info-byte bit 7 set")
            if info & 0x40:
                if info & 0x20:
                    m["tstring"] = ("ref", on.dec_uint(rr))
                else:
                    m["tstring"] = ("name", rr.take(on.dec_uint(rr)))
            ts = getmodal(m, "tstring", "text-string")
            if info & 0x01:
                m["tlayer"] = on.dec_uint(rr)
            if info & 0x02:
                m["ttype"] = on.dec_uint(rr)
            x, y = pos_xy(m, "t", info & 0x10, info & 0x08, rr)
            rp = rep_of(m, info & 0x04, rr)
            return {"k": "text", "stringref": ts, "layer": getmodal(m, "tlayer", "textlayer"), "dt": getmodal(m, "ttype", "texttype"), "x": x, "y": y, "rep": rp, "props": []}
        if rid not in (20, 21, 22, 23, 24, 25, 26, 27):
            raise Bad("unknown record %d" % rid)
        if info & 0x01:
            m["layer"] = on.dec_uint(rr)
        if info & 0x02:
            m["dt"] = on.dec_uint(rr)
        e = {"props": []}
        if rid == 20:
            if info & 0x40:
                m["gw"] = on.dec_uint(rr)
            if info & 0x80:
                if info & 0x20:
                    raise Bad("RECTANGLE with S and H")
                m["gh"] = getmodal(m, "gw", "geometry-w")
            elif info & 0x20:
                m["gh"] = on.dec_uint(rr)
            e.update({"k": "rect", "w": getmodal(m, "gw", "geometry-w"), "h": getmodal(m, "gh", "geometry-h")})
        elif rid == 21:
            if info & 0xC0:
                raise Bad("POLYGON info-byte high bits set")
            if info & 0x20:
                _, pts = on.dec_plist(rr, True)
                m["ppl"] = pts
            e.update({"k": "poly", "pts": list(getmodal(m, "ppl", "polygon-point-list"))})
        elif rid == 22:
            if info & 0x40:
                m["phw"] = on.dec_uint(rr)
            hw = getmodal(m, "phw", "path-halfwidth")
            if info & 0x80:
                sch = rr.byte()
                if sch & 0xF0:
                    raise Bad("extension-scheme high bits")
                for shift, key in ((2, "pes"), (0, "pee")):
                    c = (sch >> shift) & 3
                    if c == 1:
                        m[key] = 0
                    elif c == 2:
                        m[key] = hw
                    elif c == 3:
                        m[key] = on.dec_sint(rr)
            if info & 0x20:
                _, pts = on.dec_plist(rr, False)
                m["wpl"] = pts
            e.update({"k": "path", "hw": hw, "ext": [getmodal(m, "pes", "path-start-extension"), getmodal(m, "pee", "path-end-extension")],
                      "pts": list(getmodal(m, "wpl", "path-point-list"))})
        elif rid in (23, 24, 25):
            if info & 0x40:
                m["gw"] = on.dec_uint(rr)
            if info & 0x20:
                m["gh"] = on.dec_uint(rr)
            da = on.dec_sint(rr) if rid in (23, 24) else 0
            db = on.dec_sint(rr) if rid in (23, 25) else 0
            e.update({"k": "trap", "w": getmodal(m, "gw", "geometry-w"), "h": getmodal(m, "gh", "geometry-h"), "da": da, "db": db, "vert": bool(info & 0x80)})
        elif rid == 26:
            if info & 0x80:
                m["ctt"] = on.dec_uint(rr)
            t = getmodal(m, "ctt", "ctrapezoid-type")
            if t > 25:
                raise Bad("ctrapezoid type %d" % t)
            if info & 0x40:
                m["gw"] = on.dec_uint(rr)
            if info & 0x20:
                m["gh"] = on.dec_uint(rr)
            w = m.get("gw", 0) if t not in CTRAP_NO_W else 0
            h = m.get("gh", 0) if t not in CTRAP_NO_H else 0
            if t not in CTRAP_NO_W:
                getmodal(m, "gw", "geometry-w")
            if t not in CTRAP_NO_H:
                getmodal(m, "gh", "geometry-h")
            e.update({"k": "ctrap", "type": t, "w": w, "h": h})
        else:
            if info & 0xC0:
                raise Bad("CIRCLE info-byte high bits set")
            if info & 0x20:
                m["cr"] = on.dec_uint(rr)
            e.update({"k": "circle", "r": getmodal(m, "cr", "circle-radius")})
        e["layer"] = getmodal(m, "layer", "layer")
        e["dt"] = getmodal(m, "dt", "datatype")
        e["x"], e["y"] = pos_xy(m, "g", info & 0x10, info & 0x08, rr)
        e["rep"] = rep_of(m, info & 0x04, rr)
        return e

    def prop_record(rid, rr):
        m = state["modal"]
        if rid == 29:
            if state["last_prop"] is None:
                raise Bad("PROPERTY repeat without a previous property")
            attach(dict(state["last_prop"]))
            return
        info = rr.byte()
        if info & 0x04:
            if info & 0x02:
                m["prop_name"] = ("ref", on.dec_uint(rr))
            else:
                m["prop_name"] = ("name", rr.take(on.dec_uint(rr)))
        name = getmodal(m, "prop_name", "last-property-name")
        if info & 0x08:
            if info >> 4:
                raise Bad("PROPERTY with V=1 and UUUU != 0")
            vals = getmodal(m, "prop_values", "last-value-list")
        else:
            n = info >> 4
            if n == 15:
                n = on.dec_uint(rr)
            vals = []
            for _ in range(n):
                t = rr.byte()
                if t <= 7:
                    vals.append(("r", on.dec_real(rr, t)))
                elif t == 8:
                    vals.append(("u", on.dec_uint(rr)))
                elif t == 9:
                    vals.append(("i", on.dec_sint(rr)))
                elif t in (10, 11, 12):
                    vals.append(("s", rr.take(on.dec_uint(rr)), t))
                elif t in (13, 14, 15):
                    vals.append(("sref", on.dec_uint(rr), t))
                else:
                    raise Bad("property value type %d" % t)
            m["prop_values"] = vals
        p = {"nameref": name, "values": vals, "std": bool(info & 1)}
        state["last_prop"] = p
        attach(dict(p))

    def attach(p):
        kind, obj = state["target"]
        if kind == "file":
            res["props"].append(p)
        elif kind == "cell":
            obj["props"].append(p)
        elif kind == "element":
            obj["props"].append(p)
        elif kind == "cellnames":
            res["cellname_props"].setdefault(obj, []).append(p)
        # properties of other name records are parsed and dropped

    end_pos = parse_stream(r, 0)
    # END record
    if oflag == 1:
        offsets = [(on.dec_uint(r), on.dec_uint(r)) for _ in range(6)]
    pad = r.take(on.dec_uint(r))
    scheme = on.dec_uint(r)
    sig = None
    if scheme in (1, 2):
        sig = struct.unpack("<I", r.take(4))[0]
    elif scheme != 0:
        raise Bad("validation scheme %d" % scheme)
    if r.p != len(data):
        raise Bad("%d bytes after END" % (len(data) - r.p))
    res["end"] = {"pos": end_pos, "length": len(data) - end_pos, "padding": pad, "scheme": scheme, "signature": sig, "offsets": offsets}
    # resolve references
    def nm(ref, table, what):
        if ref[0] == "name":
            return ref[1]
        if ref[1] not in res[table]:
            raise Bad("%s reference %d is not defined" % (what, ref[1]))
        return res[table][ref[1]]

    def resolve_props(props):
        out = []
        for p in props:
            vals = []
            for v in p["values"]:
                if v[0] == "sref":
                    if v[1] not in res["propstrings"]:
                        raise Bad("propstring reference %d is not defined" % v[1])
                    vals.append(("s", res["propstrings"][v[1]].hex()))
                elif v[0] == "s":
                    vals.append(("s", v[1].hex()))
                elif v[0] == "r":
                    vals.append(("r", float(v[1])))
                else:
                    vals.append((v[0], v[1]))
            out.append({"name": nm(p["nameref"], "propnames", "propname").decode("latin-1"), "values": vals, "std": p["std"]})
        return out
    res["props"] = resolve_props(res["props"])
    for c in res["cells"]:
        c["name"] = (c["name"] if "name" in c else nm(("ref", c["ref"]), "cellnames", "cellname")).decode("latin-1")
        c["props"] = resolve_props(c["props"])
        for e in c["elements"]:
            e["props"] = resolve_props(e["props"])
            if e["k"] == "place":
                e["cell"] = nm(e["cellref"], "cellnames", "cellname").decode("latin-1")
            if e["k"] == "text":
                e["string"] = nm(e["stringref"], "textstrings", "textstring").decode("latin-1")
    res["cellname_props"] = {k: resolve_props(v) for k, v in res["cellname_props"].items()}
    return res


def decoded_placements(dec):
    """decoded file -> per cell lists in the form oasmodel.compare_expanded takes for the 're-loaded' side"""
    out = {}
    for c in dec["cells"]:
        polys, paths, labels, refs = [], [], [], []
        for e in c["elements"]:
            props = [(p["name"], [(t, v) for t, v in p["values"]]) for p in e["props"]]
            kind, data = element_shape(e)
            for ox, oy in rep_offsets(e["rep"]):
                px, py = e["x"] + ox, e["y"] + oy
                if kind == "poly":
                    polys.append({"tag": [e["layer"], e["dt"]], "pts": [(float(x + px), float(y + py)) for x, y in data], "props": props})
                elif kind == "circle":
                    polys.append({"tag": [e["layer"], e["dt"]], "pts": [(x + px, y + py) for x, y in circle_pts(data)], "props": props, "is_circle": True})
                elif kind == "path":
                    sp = [(float(px), float(py))] + [(float(x + px), float(y + py)) for x, y in e["pts"]]
                    paths.append({"tag": [e["layer"], e["dt"]], "spine": sp, "hw": [float(e["hw"])], "off": [0.0], "end": 3, "ext": [float(e["ext"][0]), float(e["ext"][1])], "props": props})
                elif kind == "text":
                    labels.append({"text": e["string"], "tag": [e["layer"], e["dt"]], "pos": (float(px), float(py)), "props": props})
                else:
                    refs.append({"target": e["cell"], "pos": (float(px), float(py)), "rot": math.radians(float(e["angle"])), "mag": float(e["mag"]), "xr": e["flip"], "props": props,
                                 "type": "cell" if any(cc["name"] == e["cell"] for cc in dec["cells"]) else "name"})
        out[c["name"]] = (polys, paths, labels, refs)
    return out
