"""C08 - RobustPath outlines follow their parametric spine, width and offset."""
import math
import os

import numpy as np
from hypothesis import strategies as st

import pathmodel as pm
import rpmodel as rm
from common import Violation, fl, hx

LEVEL = "exploration"
RULE = ("(A) query histories: 1-6 sections over segment/horizontal/vertical/arc (circular and elliptical, rotated)/turn/"
        "quadratic(_smooth)/cubic(_smooth)/bezier (degree 2-5)/parametric (menu functions, gradient supplied or not), "
        "relative and absolute, 1-3 elements with Constant/Linear/Smooth/Parametric width and offset interpolations; "
        "position, gradient, width and offset queried at drawn parameters incl. every integer with both from_below values "
        "and compared (1e-9 relative; 1e-5 for numeric gradients) with my own analytic sections; histories without "
        "width/offset arguments are also spelled as a commands() string, which must build identical sub-paths. (B) outline "
        "histories built so that the centre line stays well-conditioned (corners <= 100 degrees between long segments, turn/arc "
        "radii and Bezier curvature radii >= 2 x (half-width + |offset|), widths continuous across joints): the polygon is probed "
        "at decidable samples of the densified centre curve C(u) = S(u) + o(u) N(u): lateral distance <= half-width(u) - band "
        "must be inside, points farther than half-width + band from the whole centre line (miter reach at corners) or "
        "beyond a cap must be outside, the centre joint of every corner must be inside (no gap); band = 4 x tolerance; "
        "to_polygons must return within the watchdog. (C) simple paths written to GDSII and OASIS: the re-loaded path's "
        "centre line lies within grid + 2 x tolerance of C(u) (both directions) and its width equals w(0). Non-trivial: >= 2 "
        "sections of different kinds, a non-constant interpolation or a non-zero offset; distinct by case hash")
ASSUMPTIONS = ["elliptical arc angles are ellipse parameter angles (struct SubPath in robustpath.hpp), unlike Curve::arc",
               "samples within the exclusion radius of a corner joint (where the trimmed edge intersection is a miter) are not used except the no-gap sample",
               "pbt/rpmodel.py and pbt/pathmodel.py are the trusted models"]

cv = st.sampled_from([0.0, 3.0, -4.0, 10.0, 7.5, -12.0, 20.0, 1.5])


@st.composite
def interp_spec(draw, start, width):
    k = draw(st.sampled_from(["c", "l", "s", "p", "l"]))
    vals = [0.5, 1.0, 1.5, 0.8] if width else [0.0, 1.0, -1.0, 1.5]
    if k == "c":
        return ["c", start]
    if k in ("l", "s"):
        return [k, start, draw(st.sampled_from(vals))]
    f = draw(st.integers(0, 2))
    if f == 1:
        return ["p", 1, start, draw(st.sampled_from([0.3, -0.3, 0.5])) if not width else draw(st.sampled_from([0.3, 0.5])), 0.0]
    return ["p", f, start, draw(st.sampled_from(vals)) - start, 0.0]


def end_value(spec):
    return float(rm.interp_fn(spec)(np.array([1.0]))[0])


@st.composite
def elements(draw, nel):
    els = []
    for _ in range(nel):
        els.append({"w": draw(st.sampled_from([0.5, 1.0, 1.5])), "o": draw(st.sampled_from([0.0, 0.0, 1.0, -1.5])), "end": draw(st.integers(0, 5)),
                    "ext": [draw(st.sampled_from([0.5, 2.0, 0.0, -0.4])), draw(st.sampled_from([0.5, 2.0, 0.0, -0.4]))], "layer": draw(st.integers(0, 3))})
    return els


@st.composite
def specs_for(draw, els, cur_w, cur_o, continuous=True):
    w = o = None
    if draw(st.booleans()):
        w = [draw(interp_spec(cur_w[i], True)) for i in range(len(els))]
    if draw(st.booleans()):
        o = [draw(interp_spec(cur_o[i], False)) for i in range(len(els))]
    return w, o


@st.composite
def query_case(draw):
    nel = draw(st.integers(1, 3))
    els = draw(elements(nel))
    cur_w = [e["w"] for e in els]
    cur_o = [e["o"] for e in els]
    calls = []
    for _ in range(draw(st.integers(1, 6))):
        k = draw(st.sampled_from(["seg", "hor", "ver", "arc", "turn", "quad", "quad_smooth", "cubic", "cubic_smooth", "bezier", "param"]))
        rel = draw(st.booleans())
        if k == "seg":
            body = [draw(cv), draw(cv) + 0.7]
        elif k in ("hor", "ver"):
            body = draw(cv) + 0.3
        elif k == "arc":
            rx = draw(st.sampled_from([2.0, 5.0, 10.0]))
            body = [rx, draw(st.sampled_from([rx, rx, rx / 2, rx * 1.5])), draw(st.sampled_from([0.0, 1.0, -2.0, 3.5])), draw(st.sampled_from([1.5, 3.0, -4.0, 7.0])), draw(st.sampled_from([0.0, 0.0, 0.5, -1.0]))]
        elif k == "turn":
            body = [draw(st.sampled_from([2.0, 5.0, 10.0])), draw(st.sampled_from([1.0, -1.5708, 3.0, -0.4]))]
        elif k == "quad":
            body = [[draw(cv), draw(cv)] for _ in range(2)]
        elif k == "quad_smooth":
            body = [draw(cv), draw(cv)]
        elif k == "cubic":
            body = [[draw(cv), draw(cv)] for _ in range(3)]
        elif k == "cubic_smooth":
            body = [[draw(cv), draw(cv)] for _ in range(2)]
        elif k == "bezier":
            body = [[draw(cv), draw(cv)] for _ in range(draw(st.integers(2, 5)))]
        else:
            body = [draw(st.integers(0, 4)), [draw(st.sampled_from([3.0, 5.0, -4.0])), draw(st.sampled_from([1.0, 2.0])), draw(st.sampled_from([1.0, 3.0])), 0.0], draw(st.booleans())]
        w, o = draw(specs_for(els, cur_w, cur_o))
        if w is not None:
            cur_w = [end_value(s) for s in w]
        if o is not None:
            cur_o = [end_value(s) for s in o]
        calls.append({"k": k, "rel": rel, "body": body, "w": w, "o": o})
    n = len(calls)
    qs = [[float(i), fb] for i in range(n + 1) for fb in (False, True)]
    for _ in range(6):
        qs.append([draw(st.floats(-0.5, n + 0.5, allow_nan=False).map(lambda v: round(v, 4))), draw(st.booleans())])
    return {"kind": "query", "start": [draw(cv), draw(cv)], "tol": 0.01, "max_evals": 1000, "els": els, "calls": calls, "queries": qs}


@st.composite
def region_case(draw):
    nel = draw(st.sampled_from([1, 1, 2]))
    els = draw(elements(nel))
    cur_w = [e["w"] for e in els]
    cur_o = [e["o"] for e in els]
    h = math.radians(draw(st.sampled_from([0.0, 90.0, 33.0, -120.0])))
    calls = [{"k": "seg", "rel": True, "body": [14 * math.cos(h), 14 * math.sin(h)], "w": None, "o": None}]
    if draw(st.booleans()):
        # interpolated width/offset already on the first section (the initial cap then sits on a tilted centre line)
        w, o = draw(specs_for(els, cur_w, cur_o))
        if w is not None:
            cur_w = [end_value(s) for s in w]
        if o is not None:
            cur_o = [end_value(s) for s in o]
        calls[0]["w"], calls[0]["o"] = w, o
    prev = "seg"
    for _ in range(draw(st.integers(1, 4))):
        k = draw(st.sampled_from(["corner", "turn", "turn", "seg", "cubic_smooth", "quad_smooth", "arc", "param"]))
        if k == "corner" and prev != "seg":
            k = "seg"
        c = None
        if k == "corner":
            h += math.radians(draw(st.sampled_from([30.0, -45.0, 90.0, -90.0, 100.0, 60.0])))
            L = draw(st.sampled_from([14.0, 20.0]))
            c = {"k": "seg", "rel": True, "body": [L * math.cos(h), L * math.sin(h)]}
            prev = "seg"
        elif k == "seg":
            L = draw(st.sampled_from([8.0, 14.0]))
            c = {"k": "seg", "rel": True, "body": [L * math.cos(h), L * math.sin(h)]}
            prev = "seg"
        elif k == "turn":
            ang = math.radians(draw(st.sampled_from([45.0, 90.0, -90.0, -30.0, 150.0])))
            c = {"k": "turn", "rel": False, "body": [draw(st.sampled_from([8.0, 12.0, 25.0])), ang]}
            h += ang
            prev = "turn"
        elif k == "arc":
            # circular arc starting tangent to the current heading
            ang = math.radians(draw(st.sampled_from([60.0, -60.0, 120.0])))
            r = draw(st.sampled_from([8.0, 15.0]))
            a0 = h + (-0.5 * math.pi if ang > 0 else 0.5 * math.pi)
            c = {"k": "arc", "rel": False, "body": [r, r, a0, a0 + ang, 0.0]}
            h += ang
            prev = "arc"
        elif k == "cubic_smooth":
            d = draw(st.sampled_from([-40.0, 40.0, 25.0]))
            h2 = h + math.radians(d)
            L = 20.0
            e = (L * math.cos(h + math.radians(d) / 2), L * math.sin(h + math.radians(d) / 2))
            c2 = (e[0] - 6 * math.cos(h2), e[1] - 6 * math.sin(h2))
            c = {"k": "cubic_smooth", "rel": True, "body": [[c2[0], c2[1]], [e[0], e[1]]]}
            h = h2
            prev = "cubic"
        elif k == "quad_smooth":
            # the control point is fixed by continuity; end point ahead and slightly to the side
            d = draw(st.sampled_from([-25.0, 25.0]))
            L = 16.0
            c = {"k": "quad_smooth", "rel": True, "body": [L * math.cos(h + math.radians(d)), L * math.sin(h + math.radians(d))]}
            h = None
            prev = "quad"
        else:
            c = None
        if c is None:
            continue
        w, o = draw(specs_for(els, cur_w, cur_o))
        if w is not None:
            cur_w = [end_value(s) for s in w]
        if o is not None:
            cur_o = [end_value(s) for s in o]
        c["w"], c["o"] = w, o
        calls.append(c)
        if h is None:
            break   # heading after a smooth quadratic is not tracked by the generator: stop the history there
    return {"kind": "region", "start": [draw(cv), draw(cv)], "tol": draw(st.sampled_from([0.01, 0.01, 0.002])), "max_evals": 1000, "els": els, "calls": calls,
            "simple": draw(st.sampled_from([False, False, True])), "io": draw(st.sampled_from(["none", "gds", "oas"])),
            "ioscale": draw(st.sampled_from([1.0, 1.0, 2.0, 0.5, 3.0]))}      # the path is scaled about the origin before it is saved


# ---------------------------------------------------------------------------- scripts
def new_lines(pid, case, simple=False):
    els = case["els"]
    lines = ["rp new %s %s %s %d %s %d %d 1 %s" % (pid, fl(case["start"][0]), fl(case["start"][1]), len(els), fl(case["tol"]), case["max_evals"], 1 if simple else 0,
                                                    " ".join("%s %s %d 0" % (fl(e["w"]), fl(e["o"]), e["layer"]) for e in els))]
    for i, e in enumerate(els):
        lines.append("rp elem %s %d %d %s %s" % (pid, i, e["end"], fl(e["ext"][0]), fl(e["ext"][1])))
    return lines


def call_line(pid, c):
    k, rel, b = c["k"], 1 if c.get("rel") else 0, c["body"]
    tail = "%s %s" % (rm.spec_text(c.get("w")), rm.spec_text(c.get("o")))
    if k == "seg":
        return "rp seg %s %d %s %s %s" % (pid, rel, fl(b[0]), fl(b[1]), tail)
    if k in ("hor", "ver"):
        return "rp %s %s %d %s %s" % (k, pid, rel, fl(b), tail)
    if k in ("cubic", "cubic_smooth", "quad"):
        return "rp %s %s %d %s %s" % (k, pid, rel, " ".join(fl(v) for p in b for v in p), tail)
    if k == "quad_smooth":
        return "rp quad_smooth %s %d %s %s %s" % (pid, rel, fl(b[0]), fl(b[1]), tail)
    if k == "bezier":
        return "rp bezier %s %d %d %s %s" % (pid, rel, len(b), " ".join(fl(v) for p in b for v in p), tail)
    if k == "arc":
        return "rp arc %s %s %s" % (pid, " ".join(fl(v) for v in b), tail)
    if k == "turn":
        return "rp turn %s %s %s %s" % (pid, fl(b[0]), fl(b[1]), tail)
    if k == "param":
        return "rp param %s %d %d %s %d %s" % (pid, rel, b[0], " ".join(fl(v) for v in b[1]), 1 if (len(b) > 2 and b[2]) else 0, tail)
    raise ValueError(k)


def commands_of(calls):
    items = []
    for c in calls:
        if c.get("w") is not None or c.get("o") is not None:
            return None
        k, rel, b = c["k"], c.get("rel"), c["body"]
        if k == "seg":
            items += ["c:l" if rel else "c:L", fl(b[0]), fl(b[1])]
        elif k == "hor":
            items += ["c:h" if rel else "c:H", fl(b)]
        elif k == "ver":
            items += ["c:v" if rel else "c:V", fl(b)]
        elif k == "cubic":
            items += ["c:c" if rel else "c:C"] + [fl(v) for p in b for v in p]
        elif k == "cubic_smooth":
            items += ["c:s" if rel else "c:S"] + [fl(v) for p in b for v in p]
        elif k == "quad":
            items += ["c:q" if rel else "c:Q"] + [fl(v) for p in b for v in p]
        elif k == "quad_smooth":
            items += ["c:t" if rel else "c:T", fl(b[0]), fl(b[1])]
        elif k == "turn":
            items += ["c:a", fl(b[0]), fl(b[1])]
        elif k == "arc" and b[0] == b[1] and b[4] == 0.0:
            items += ["c:A", fl(b[0]), fl(b[2]), fl(b[3])]
        elif k == "arc":
            items += ["c:E"] + [fl(v) for v in b]
        else:
            return None
    return items


def build_history(case):
    H = rm.History(case["start"], [e["w"] for e in case["els"]], [e["o"] for e in case["els"]])
    for c in case["calls"]:
        H.add(c)
    return H


def close(a, b, rel, scale=1.0):
    return abs(a - b) <= rel * max(scale, abs(a), abs(b))


def check_query(ctx, case):
    H = build_history(case)
    n = len(case["calls"])
    lines = new_lines("p", case) + [call_line("p", c) for c in case["calls"]]
    lines.append("rp eval p %d %s" % (len(case["queries"]), " ".join("%s %d" % (fl(u), 1 if fb else 0) for u, fb in case["queries"])))
    lines.append("dump rp p")
    items = commands_of(case["calls"])
    if items is not None:
        lines += new_lines("q", case) + ["rp commands q %d %s" % (len(items), " ".join(items)), "dump rp q"]
    outs = ctx.run(lines, case)

    def fail(msg):
        raise Violation(msg, case, None, None, lines)
    ev = [o for o in outs if isinstance(o, dict) and "eval" in o][0]["eval"]
    dumps = [o["rp"] for o in outs if isinstance(o, dict) and "rp" in o]
    labels = ["query"] + ["call_" + c["k"] for c in case["calls"]]
    sc = max(1.0, max(abs(v) for s in H.sections for v in s.pos(np.array([0.0, 1.0])).ravel()))
    for (u, fb), got in zip(case["queries"], ev):
        uu = min(max(u, 0.0), float(n))
        idx = int(uu)
        fr = uu - idx
        if (fb and fr == 0 and idx > 0) or idx == n:
            idx -= 1
            fr = 1.0
        sec = H.sections[idx]
        ua = np.array([fr])
        p = sec.pos(ua)[0]
        g = sec.grad(ua)[0]
        what = "u=%r from_below=%s (section %d %s at %r)" % (u, fb, idx, case["calls"][idx]["k"], fr)
        pt = 2e-3 if sec.approx else 1e-9
        if not (close(got["pos"][0], p[0], pt, sc) and close(got["pos"][1], p[1], pt, sc)):
            fail("position(%s) = %s, the section's curve gives %s" % (what, got["pos"], (float(p[0]), float(p[1]))))
        numeric = sec.numgrad
        # a missing gradient is replaced by a finite difference of step 1/(10 max_evals), one-sided at the section ends
        numeric = numeric or sec.approx
        gt = 1e-3 if numeric else 1e-9
        gs = max(20.0 if numeric else 1.0, abs(g[0]), abs(g[1]))
        if not (close(got["grad"][0], g[0], gt, gs) and close(got["grad"][1], g[1], gt, gs)):
            fail("gradient(%s) = %s, the section's derivative is %s" % (what, got["grad"], (float(g[0]), float(g[1]))))
        for i in range(H.n):
            w = float(rm.interp_fn(H.w[i][idx])(ua)[0])
            o = float(rm.interp_fn(H.o[i][idx])(ua)[0])
            if not close(got["width"][i], w, 1e-9):
                fail("width(%s)[%d] = %r, the interpolation %s gives %r" % (what, i, got["width"][i], H.w[i][idx], w))
            if not close(got["offset"][i], o, 1e-9):
                fail("offset(%s)[%d] = %r, the interpolation %s gives %r" % (what, i, got["offset"][i], H.o[i][idx], o))
    ep = dumps[0]["end_point"]
    et = 2e-3 if any(s_.approx for s_ in H.sections) else 1e-9
    if not (close(ep[0], H.end[0], et, sc) and close(ep[1], H.end[1], et, sc)):
        fail("end_point %s after the calls, expected %s" % (ep, H.end))
    if dumps[0]["num_subpaths"] != n:
        fail("%d sub-paths for %d calls" % (dumps[0]["num_subpaths"], n))
    if items is not None:
        a, b = dumps[0], dumps[1]
        cons = [o for o in outs if isinstance(o, dict) and "consumed" in o][0]["consumed"]
        if cons != len(items):
            fail("commands() consumed %d of %d items" % (cons, len(items)))

        def flat(x):
            if isinstance(x, dict):
                return [v for k in sorted(x) for v in flat(x[k])]
            if isinstance(x, list):
                return [v for y in x for v in flat(y)]
            return [x]
        fa, fb_ = flat(a["subpaths"]), flat(b["subpaths"])
        if len(fa) != len(fb_) or any((isinstance(x, str) and x != y) or (not isinstance(x, str) and not close(x, y, 1e-12)) for x, y in zip(fa, fb_)):
            fail("the commands() spelling %s builds sub-paths %s, the calls build %s" % (items, b["subpaths"], a["subpaths"]))
        labels.append("commands_spelling")
    kinds = {c["k"] for c in case["calls"]}
    nt = len(kinds) >= 2 and any(c["w"] or c["o"] for c in case["calls"])
    ctx.stats.note(case, nt, labels)


def dense_centre(H, i, s, n=160):
    u = np.linspace(0, 1, n + 1)
    return u, H.centre(i, s, u), H.halfwidth(i, s, u)


def check_region(ctx, case, ignore_known=False):
    H = build_history(case)
    tol = case["tol"]
    nel = H.n
    simple = case["simple"]
    lines = new_lines("p", case, simple) + [call_line("p", c) for c in case["calls"]]
    lines.append("rp topoly p 0 0 0 -")
    io = case["io"] if simple else "none"
    ks = float(case.get("ioscale", 1.0)) if io != "none" else 1.0
    if io != "none":
        path = os.path.join(ctx.tmpdir, "c08.%s" % io)
        if ks != 1.0:
            lines.append("xf rp p scale %s %s %s" % (fl(ks), fl(0.0), fl(0.0)))
        lines += ["cell new c %s" % hx("TOP"), "cell add c rp p", "lib new l %s %s %s" % (hx("L"), fl(1e-6), fl(1e-9)), "lib add l c"]
        if io == "gds":
            lines += ["io write_gds l %s 199" % path, "io read_gds r %s 0 %s N" % (path, fl(1e-3))]
        else:
            lines += ["io write_oas l %s %s 6 0" % (path, fl(0)), "io read_oas r %s 0 %s" % (path, fl(1e-3))]
        lines += ["hier get_flexpaths r.0 0 0 0 0 0 q", "dump lib r"]
    outs = ctx.run(lines, case)

    def fail(msg):
        raise Violation(msg, case, None, None, lines)
    top = [o for o in outs if isinstance(o, dict) and "result" in o and "err" in o][0]
    labels = ["region"] + ["call_" + c["k"] for c in case["calls"]]
    nsec = len(H.sections)
    sc = max(1.0, max(abs(v) for s in H.sections for v in s.pos(np.array([0.0, 1.0])).ravel()))
    band = 4 * tol + 1e-9 * sc
    total = 0
    judged_any = False
    centres = []
    excls = {}
    for i, e in enumerate(case["els"]):
        # densified centre line, conditioning, corner joints
        pieces = []
        excl = []
        gapless = []
        ok = True
        allC = []
        for s in range(nsec):
            u, C, hw = dense_centre(H, i, s)
            allC.append(C)
            if (hw <= 0).any():
                ok = False
            d = C[1:] - C[:-1]
            L = np.hypot(d[:, 0], d[:, 1])
            if (L < 1e-9).any():
                ok = False
                break
            # curvature radius of the centre polyline vs reach
            t = d / L[:, None]
            turn = np.abs(np.arctan2(t[:-1, 0] * t[1:, 1] - t[:-1, 1] * t[1:, 0], (t[:-1] * t[1:]).sum(axis=1)))
            rad = 0.5 * (L[:-1] + L[1:]) / np.maximum(turn, 1e-12)
            if (rad < 2.0 * (hw.max() + band)).any():
                ok = False
            for k in range(len(u) - 1):
                pieces.append((tuple(C[k]), tuple(C[k + 1]), float(hw[k]), float(hw[k + 1])))
        if not ok:
            labels.append("ill_conditioned_not_judged")
            centres.append(None)
            continue
        centres.append(np.concatenate(allC))
        for s in range(1, nsec):
            g0 = H.sections[s - 1].grad(np.array([1.0]))[0]
            g1 = H.sections[s].grad(np.array([0.0]))[0]
            th = abs(math.atan2(g0[0] * g1[1] - g0[1] * g1[0], g0[0] * g1[0] + g0[1] * g1[1]))
            hw_j = float(H.halfwidth(i, s, np.array([0.0]))[0])
            hw_p = float(H.halfwidth(i, s - 1, np.array([1.0]))[0])
            o_j = abs(float(rm.interp_fn(H.o[i][s])(np.array([0.0]))[0]))
            J = H.sections[s].pos(np.array([0.0]))[0]
            if abs(hw_j - hw_p) > 1e-9:
                ok = False
            # the centre line also turns where the slope of the offset changes (smooth spine, kinked centre)
            ca, cb = allC[s - 1], allC[s]
            d0, d1 = ca[-1] - ca[-2], cb[1] - cb[0]
            thc = abs(math.atan2(d0[0] * d1[1] - d0[1] * d1[0], d0[0] * d1[0] + d0[1] * d1[1]))
            if thc > math.radians(115.0):
                ok = False
            if th <= 1e-6 and thc > 2e-3:
                R = max(hw_j, hw_p) * (math.tan(thc / 2) + 1 / math.cos(thc / 2)) + 2 * band
                excl.append((float(ca[-1][0]), float(ca[-1][1]), R))
            if th > 1e-6 and thc > th:
                th = thc
            if th > 1e-6:
                R = (o_j + max(hw_j, hw_p)) * (math.tan(th / 2) + 1 / math.cos(th / 2)) + 2 * band
                excl.append((float(J[0]), float(J[1]), R))
                # centre joint: intersection of the two displaced tangent lines
                t0, t1 = pm.unit(g0), pm.unit(g1)
                c0 = H.centre(i, s - 1, np.array([1.0]))[0]
                c1 = H.centre(i, s, np.array([0.0]))[0]
                x = pm.line_x(tuple(c0), t0, tuple(c1), t1)
                if x is not None and hw_j > 2 * band:
                    gapless.append(x)
        if not ok:
            labels.append("width_jump_not_judged")
            centres[-1] = None
            continue
        if e["end"] == pm.E_EXT:
            # a negative extension is a straight cut along the end tangent keeping the end width: on a curved or tapering
            # end section it differs from the shortened sweep by second-order slivers
            for which, sidx, uu in ((0, 0, 0.0), (1, nsec - 1, 1.0)):
                if e["ext"][which] < 0 and (H.sections[sidx].kind != "seg" or H.w[i][sidx][0] != "c" or H.o[i][sidx][0] != "c"):
                    E = H.centre(i, sidx, np.array([uu]))[0]
                    # the cut is joined to the previous sampled edge point, up to a quarter of the section away
                    cs = allC[sidx]
                    seclen = float(np.hypot(*(cs[1:] - cs[:-1]).T).sum())
                    excl.append((float(E[0]), float(E[1]), -e["ext"][which] + 0.3 * seclen + pieces[0 if which == 0 else -1][2] * 1.5 + 2 * band))
        excls[i] = excl
        m = pm.Model(tol)
        m.pieces = pieces
        # exact end tangents of the centre curve (the chords of the densified curve are half a step off)
        h_ = 1e-6
        a0 = H.centre(i, 0, np.array([0.0, h_]))
        a1 = H.centre(i, nsec - 1, np.array([1.0 - h_, 1.0]))
        tans = (pm.unit((a0[1][0] - a0[0][0], a0[1][1] - a0[0][1])), pm.unit((a1[1][0] - a1[0][0], a1[1][1] - a1[0][1])))
        pm.apply_caps(m, pieces[0][2], pieces[-1][3], {"end": e["end"], "ext": e["ext"]}, tangents=tans)
        m.finish()
        S = pm.samples(m, band)
        S = [s_ for s_ in S if not any(math.hypot(s_[0] - x[0], s_[1] - x[1]) <= x[2] for x in excl)]
        S += [(g[0], g[1], "in") for g in gapless]
        if top["err"] not in (0, 3) or len(top["result"]) != nel:
            fail("to_polygons returned error %d and %d polygons for %d elements" % (top["err"], len(top["result"]), nel))
        if top["err"] == 3:
            ctx.stats.count("intersection_not_found_warnings")   # a warning: the outline is judged all the same
        V = np.array(top["result"][i]["pts"], dtype=float)
        if not np.isfinite(V).all():
            fail("element %d: the outline has a non-finite vertex" % i)
        if S:
            X = np.array([(s_[0], s_[1]) for s_ in S], dtype=float)
            w = pm.winding(X, V)
            for k, s_ in enumerate(S):
                if (s_[2] == "in") != bool(w[k]):
                    d = float(pm.boundary_distance(X[k:k + 1], V)[0])
                    fail("element %d (end %d): point (%.6g, %.6g) must be %sside the outline (band %.3g) but is not (%.3g from its boundary)" %
                         (i, e["end"], s_[0], s_[1], "in" if s_[2] == "in" else "out", band, d))
            total += len(S)
            judged_any = True
    ctx.stats.count("samples", total)
    if io != "none":
        rd = [o for o in outs if isinstance(o, dict) and "ncells" in o][0]
        res = [o for o in outs if isinstance(o, dict) and "result" in o and "err" not in o][0]["result"]
        if rd["err"] != 0:
            fail("re-loading the %s file failed with error %d" % (io, rd["err"]))
        no_record = io == "oas" and any(e["end"] in (pm.E_ROUND, pm.E_SMOOTH, pm.E_FUNC) for e in case["els"])
        if no_record and len(res) == 0:
            # OASIS PATH records only have flush, half-width and explicit extensions: a simple path with another end type is
            # saved as its outline, one polygon per element in element order; compared with the outline judged above
            rpolys = [o for o in outs if isinstance(o, dict) and "lib" in o][0]["lib"]["cells"][0]["polygons"]
            if len(rpolys) != len(top["result"]):
                fail("oas: a simple path with %d outline polygons was saved as %d polygons and no PATH record" % (len(top["result"]), len(rpolys)))
            for i, (a, b) in enumerate(zip(top["result"], rpolys)):
                A = np.array(a["pts"], dtype=float)
                B = np.array(b["pts"], dtype=float) / ks
                # two samplings of the same edge curves (the scaled path is re-sampled): each within the 4 x tolerance band
                # that the region clause grants to_polygons, plus the file grid
                bandp = 4 * tol * max(1.0, 1.0 / ks) + 3e-3 / ks
                d1 = float(pm.boundary_distance(A, B).max())
                d2 = float(pm.boundary_distance(B, A).max())
                if a["tag"] != b["tag"] or d1 > bandp or d2 > bandp:
                    fail("oas: outline %d saved for a simple path without PATH record is %.4g / %.4g away from to_polygons (allowed %.3g)" % (i, d1, d2, bandp))
            labels.append("path_as_outline_oas")
            res = None
        elif len(res) != nel:
            fail("%s: %d paths re-loaded for %d elements of a simple path" % (io, len(res), nel))
        for i, e in enumerate(case["els"] if res is not None else []):
            if centres[i] is None:
                continue
            got = res[i]
            w0 = ks * float(rm.interp_fn(H.w[i][0])(np.array([0.0]))[0])      # scale_width is on: the width follows the scaling
            gw = 2 * got["elements"][0]["hwo"][0][0]
            if abs(gw - w0) > 2.1e-3:
                fail("%s PATH record of element %d: width %r, the path's width at its start is %r" % (io, i, gw, w0))
            sp = np.array(got["spine"], dtype=float) / ks      # compared in the unscaled frame, band scaled accordingly
            C = centres[i]
            # near a corner the two centre curves are trimmed at their intersection: my untrimmed ends are not compared there
            keep = np.ones(len(C), dtype=bool)
            for x in excls.get(i, []):
                keep &= np.hypot(C[:, 0] - x[0], C[:, 1] - x[1]) > x[2]
            C = C[keep]
            bandc = 2 * tol * max(1.0, 1.0 / ks) + 3e-3 / ks      # the tolerance applies to the scaled curve
            Cfull = centres[i]
            far = np.ones(len(sp), dtype=bool)
            for x in excls.get(i, []):
                far &= np.hypot(sp[:, 0] - x[0], sp[:, 1] - x[1]) > x[2]
            d1 = float(pm.boundary_distance(sp[far], np.vstack([Cfull, Cfull[::-1]])).max()) if far.any() else 0.0
            d2 = float(pm.boundary_distance(C, np.vstack([sp, sp[::-1]])).max()) if len(sp) >= 2 else float("inf")
            if d1 > bandc or d2 > bandc:
                fail("%s PATH record of element %d: its centre line is %.4g / %.4g away from C(u) (allowed %.3g)" % (io, i, d1, d2, bandc))
        if res is not None:
            labels.append("path_record_" + io)
    kinds = {c["k"] for c in case["calls"]}
    nt = judged_any and len(kinds) >= 2 and (any(c["w"] or c["o"] for c in case["calls"]) or any(e["o"] != 0 for e in case["els"]))
    ctx.stats.note(case, nt, labels + ["end_%d" % e["end"] for e in case["els"]])


def check(ctx, case, ignore_known=False):
    if case["kind"] == "query":
        return check_query(ctx, case)
    return check_region(ctx, case, ignore_known)


def run_worker(ctx):
    q = ctx.tier == "quick"
    vs = []
    for name, strat, total in (("query", query_case(), 3000 if q else 40000), ("region", region_case(), 1600 if q else 20000)):
        v = ctx.hypothesis(check, strat, ctx.share(total), name)
        if v:
            vs.append(v)
    return vs


def replay(ctx, test, case, ignore_known=False):
    return check(ctx, case, ignore_known)
