"""Region model of a path element used by C07 (and the PATH-record clauses): the element's centre line as a list of straight
pieces with (tapering) half-widths, the joints between them and the two caps.  From it every sample point is classified as
must-be-inside, must-be-outside or undecidable; the outline polygon produced by the library is then probed at the decidable
samples (nonzero winding).  Everything here is derived from the call history, never from the library's own spine."""
import math

import numpy as np

NATURAL, MITER, BEVEL, ROUND, SMOOTH, JFUNC = range(6)
E_FLUSH, E_ROUND, E_HALF, E_EXT, E_SMOOTH, E_FUNC = range(6)


def unit(v):
    l = math.hypot(v[0], v[1])
    return (v[0] / l, v[1] / l)


def left(t):
    return (-t[1], t[0])


def line_x(p, d, q, e):
    """intersection of p + u d and q + v e, None if (nearly) parallel"""
    den = d[0] * e[1] - d[1] * e[0]
    if abs(den) < 1e-9:
        return None
    u = ((q[0] - p[0]) * e[1] - (q[1] - p[1]) * e[0]) / den
    return (p[0] + u * d[0], p[1] + u * d[1])


class Degenerate(Exception):
    pass


def centre_points(spine, off):
    """centre polyline of an element: every spine segment displaced sideways by the local offsets, consecutive displaced
    lines intersected"""
    n = len(spine)
    segs = []
    for k in range(n - 1):
        t = unit((spine[k + 1][0] - spine[k][0], spine[k + 1][1] - spine[k][1]))
        N = left(t)
        A = (spine[k][0] + N[0] * off[k], spine[k][1] + N[1] * off[k])
        B = (spine[k + 1][0] + N[0] * off[k + 1], spine[k + 1][1] + N[1] * off[k + 1])
        segs.append((A, B))
    C = [segs[0][0]]
    for k in range(1, n - 1):
        (A0, B0), (A1, B1) = segs[k - 1], segs[k]
        x = line_x(B0, unit((B0[0] - A0[0], B0[1] - A0[1])), A1, unit((B1[0] - A1[0], B1[1] - A1[1])))
        if x is None:
            x = ((B0[0] + A1[0]) / 2, (B0[1] + A1[1]) / 2)
        lp = math.hypot(spine[k][0] - spine[k - 1][0], spine[k][1] - spine[k - 1][1])
        ln = math.hypot(spine[k + 1][0] - spine[k][0], spine[k + 1][1] - spine[k][1])
        if math.hypot(x[0] - B0[0], x[1] - B0[1]) > 0.75 * lp or math.hypot(x[0] - A1[0], x[1] - A1[1]) > 0.75 * ln:
            raise Degenerate("the displaced lines meet beyond their segments (ill-conditioned joint)")
        C.append(x)
    C.append(segs[-1][1])
    return C


class Model:
    """pieces: (P, Q, hwP, hwQ); joints: dict(J, theta, side, hw, tA, tB, join); caps: start/end dict(E, t (outward), hw, end, ext)"""

    def __init__(self, tol):
        self.pieces = []
        self.joints = []
        self.caps = []
        self.tol = tol

    def finish(self):
        self.P = np.array([p[0] for p in self.pieces], dtype=float)
        self.Q = np.array([p[1] for p in self.pieces], dtype=float)
        self.hP = np.array([p[2] for p in self.pieces], dtype=float)
        self.hQ = np.array([p[3] for p in self.pieces], dtype=float)
        d = self.Q - self.P
        self.L = np.hypot(d[:, 0], d[:, 1])
        if (self.L < 1e-9).any():
            raise Degenerate("zero-length centre piece")
        self.T = d / self.L[:, None]
        # flat-cap flags per piece end: region of the piece stops at the plane
        self.flat0 = np.zeros(len(self.pieces), dtype=bool)
        self.flat1 = np.zeros(len(self.pieces), dtype=bool)
        if self.caps[0]["end"] != E_ROUND:
            self.flat0[0] = True
        if self.caps[1]["end"] != E_ROUND:
            self.flat1[-1] = True

    def classify(self, X, band, skip_pieces=()):
        """X (m,2) -> (inside_required, near) boolean arrays"""
        X = np.asarray(X, dtype=float)
        dx = X[:, None, :] - self.P[None, :, :]
        s = (dx * self.T[None, :, :]).sum(axis=2)                  # along
        lat = dx[:, :, 0] * self.T[None, :, 1] * -1 + dx[:, :, 1] * self.T[None, :, 0]   # left positive
        frac = np.clip(s / self.L[None, :], 0, 1)
        hw = self.hP[None, :] + (self.hQ - self.hP)[None, :] * frac
        inside = ((s >= band) & (s <= self.L[None, :] - band) & (np.abs(lat) <= hw - band)).any(axis=1)
        # clamped distance
        sc = np.clip(s, 0, self.L[None, :])
        dist = np.hypot(s - sc, lat)
        hwmax = np.maximum(self.hP, self.hQ)[None, :]
        near_k = dist <= hwmax + band
        near_k &= ~(self.flat0[None, :] & (s < -band))
        near_k &= ~(self.flat1[None, :] & (s > self.L[None, :] + band))
        for k in skip_pieces:
            near_k[:, k] = False
        near = near_k.any(axis=1)
        # round caps: disc
        for c in self.caps:
            if c["end"] == E_ROUND:
                d = np.hypot(X[:, 0] - c["E"][0], X[:, 1] - c["E"][1])
                inside |= d <= c["hw"] - band
            if c["end"] == E_SMOOTH:
                d = np.hypot(X[:, 0] - c["E"][0], X[:, 1] - c["E"][1])
                near |= d <= 1.6 * c["hw"] + band
        return inside, near

    def near_joints(self, X, band, skip=None):
        X = np.asarray(X, dtype=float)
        near = np.zeros(len(X), dtype=bool)
        for i, j in enumerate(self.joints):
            if i == skip:
                continue
            d = np.hypot(X[:, 0] - j["J"][0], X[:, 1] - j["J"][1])
            near |= d <= j["outer"] + band
        return near


def joint_reaches(join, hw, theta):
    """(inner, outer): along the outer bisector the outline boundary lies between these distances from the joint"""
    c = math.cos(theta / 2)
    s = math.sin(theta / 2)
    miter = hw / max(c, 1e-6)
    bevel = hw * c
    if join == ROUND:
        return hw, hw
    if join == MITER:
        return miter, miter
    if join in (BEVEL, JFUNC):
        return bevel, bevel
    if join == NATURAL:
        # edges are extended by at most the half-width, then connected
        ext = hw * math.tan(theta / 2)       # length needed to reach the miter point
        if ext <= hw:
            return miter, miter
        v = hw * (c + s)
        return v, v
    return bevel, miter * 1.05               # SMOOTH: a Hobby curve between the bevel chord and the miter point


def apply_caps(m, hw_start, hw_end, el, tangents=None):
    """append the two caps (and the pieces of positive extensions) to a model whose pieces run from start to end.
    tangents: optional exact unit tangents (forward direction) at the start and at the end of a densified curve"""
    hw = [hw_start, hw_end]
    # caps
    end = el["end"]
    for which in (0, 1):
        piece = m.pieces[0] if which == 0 else m.pieces[-1]
        h = hw[0] if which == 0 else hw[-1]
        E = piece[0] if which == 0 else piece[1]
        t = unit((piece[1][0] - piece[0][0], piece[1][1] - piece[0][1]))
        if tangents is not None and tangents[which] is not None:
            t = tangents[which]
        outward = (-t[0], -t[1]) if which == 0 else t
        ext = 0.0
        if end == E_HALF:
            ext = h
        elif end == E_EXT:
            ext = el["ext"][which]
        if ext != 0.0:
            E2 = (E[0] + outward[0] * ext, E[1] + outward[1] * ext)
            if ext > 0:
                if which == 0:
                    m.pieces.insert(0, (E2, E, h, h))
                    for j in m.joints:
                        j["pieces"] = [i + 1 for i in j["pieces"]]
                else:
                    m.pieces.append((E, E2, h, h))
            else:
                # shorten from that end, dropping whole pieces of a densified centre line where needed
                rest = -ext
                while True:
                    piece = m.pieces[0] if which == 0 else m.pieces[-1]
                    L = math.hypot(piece[1][0] - piece[0][0], piece[1][1] - piece[0][1])
                    if rest < 0.8 * L:
                        break
                    if len(m.pieces) <= 3:
                        raise Degenerate("negative extension consumes the end segment")
                    rest -= L
                    if which == 0:
                        m.pieces.pop(0)
                        for j in m.joints:
                            j["pieces"] = [i - 1 for i in j["pieces"]]
                    else:
                        m.pieces.pop()
                rest = max(rest, 0.0)
                tt = unit((piece[1][0] - piece[0][0], piece[1][1] - piece[0][1]))
                if which == 0:
                    E2 = (piece[0][0] + tt[0] * rest, piece[0][1] + tt[1] * rest)
                    m.pieces[0] = (E2, piece[1], piece[2], piece[3])
                else:
                    E2 = (piece[1][0] - tt[0] * rest, piece[1][1] - tt[1] * rest)
                    m.pieces[-1] = (piece[0], E2, piece[2], piece[3])
            E = E2
        m.caps.append({"E": E, "t": outward, "hw": h, "end": end, "ext": ext})


def build(spine, hw, off, el, tol, bends_fit=None):
    """spine: list of points; hw/off: per spine point; el: dict(join, end, ext, bend, radius).  bends_fit: optional list collecting
    per joint "fit"/"nofit"/"ambiguous" decisions."""
    C = centre_points(spine, off)
    n = len(C)
    m = Model(tol)
    dirs = []
    for k in range(n - 1):
        v = (C[k + 1][0] - C[k][0], C[k + 1][1] - C[k][1])
        sp = (spine[k + 1][0] - spine[k][0], spine[k + 1][1] - spine[k][1])
        if math.hypot(*v) < 1e-6 or v[0] * sp[0] + v[1] * sp[1] <= 0:
            raise Degenerate("centre segment reversed by the offsets")
        dirs.append(unit(v))
    lens = [math.hypot(C[k + 1][0] - C[k][0], C[k + 1][1] - C[k][1]) for k in range(n - 1)]
    # joints / bends
    cut_before = [0.0] * n   # length consumed at the start of piece k by a bend at joint k
    cut_after = [0.0] * n    # length consumed at the end of piece k-1 by a bend at joint k
    arcs = {}
    avail = list(lens)
    for k in range(1, n - 1):
        t0, t1 = dirs[k - 1], dirs[k]
        cr = t0[0] * t1[1] - t0[1] * t1[0]
        dt = max(-1.0, min(1.0, t0[0] * t1[0] + t0[1] * t1[1]))
        theta = math.acos(dt)
        side = 1 if cr >= 0 else -1
        if el["bend"] != 0 and theta > 1e-3:
            Rc = el["radius"] - side * off[k]
            need = Rc * math.tan(theta / 2)
            room = min(avail[k - 1], lens[k])
            if Rc > 1.2 * hw[k] and need <= 0.8 * room and need > 0:
                state = "fit"
            elif Rc < 0.8 * hw[k] or need >= 1.25 * room:
                state = "nofit"
            else:
                state = "ambiguous"
            if bends_fit is not None:
                bends_fit.append(state)
            if state == "ambiguous":
                raise Degenerate("bend neither clearly fits nor clearly does not")
            if state == "fit":
                cut_after[k] = need
                cut_before[k] = need
                avail[k] = lens[k] - need
                nb = left(t0) if side > 0 else (-left(t0)[0], -left(t0)[1])
                ts = (C[k][0] - t0[0] * need, C[k][1] - t0[1] * need)
                centre = (ts[0] + nb[0] * Rc, ts[1] + nb[1] * Rc)
                arcs[k] = (centre, Rc, ts, theta, side)
                continue
        inner, outer = joint_reaches(el["join"], hw[k], theta)
        m.joints.append({"J": C[k], "theta": theta, "side": side, "hw": hw[k], "tA": t0, "tB": t1, "join": el["join"], "inner": inner, "outer": max(outer, hw[k]),
                         "exact_outer": outer, "pieces": None, "index": k})
    # pieces
    for k in range(n - 1):
        a = (C[k][0] + dirs[k][0] * cut_before[k], C[k][1] + dirs[k][1] * cut_before[k])
        b = (C[k + 1][0] - dirs[k][0] * cut_after[k + 1], C[k + 1][1] - dirs[k][1] * cut_after[k + 1])
        if (b[0] - a[0]) * dirs[k][0] + (b[1] - a[1]) * dirs[k][1] <= 1e-6:
            raise Degenerate("bends consume the whole segment")
        if k in arcs:
            centre, Rc, ts, theta, side = arcs[k]
            a0 = math.atan2(ts[1] - centre[1], ts[0] - centre[0])
            steps = max(2, int(math.ceil(theta / (2 * math.sqrt(0.6 * tol / Rc)))))   # chord sagitta <= 0.3 x tolerance
            prev = ts
            for i in range(1, steps + 1):
                ang = a0 + side * theta * i / steps
                q = (centre[0] + Rc * math.cos(ang), centre[1] + Rc * math.sin(ang))
                m.pieces.append((prev, q, hw[k], hw[k]))
                prev = q
        m.pieces.append((a, b, hw[k], hw[k + 1]))
    # piece indices adjacent to each joint (for exclusion when deciding bisector samples)
    for j in m.joints:
        J = j["J"]
        adj = [i for i, p in enumerate(m.pieces) if math.hypot(p[0][0] - J[0], p[0][1] - J[1]) < 1e-9 or math.hypot(p[1][0] - J[0], p[1][1] - J[1]) < 1e-9]
        j["pieces"] = adj
    apply_caps(m, hw[0], hw[-1], el)
    m.finish()
    return m


def samples(m, band):
    """candidate sample points with what the model demands of each: list of (x, y, want) with want in {"in", "out"}"""
    out_pts = []
    # along every piece
    n = len(m.pieces)
    stride = max(1, n // 40)
    cand = []
    for k in range(0, n, 1):
        if n > 40 and k % stride and k not in (0, n - 1):
            continue
        P, Q, h0, h1 = m.pieces[k]
        t = m.T[k]
        N = (-t[1], t[0])
        for f in (0.12, 0.5, 0.88):
            c = (P[0] + (Q[0] - P[0]) * f, P[1] + (Q[1] - P[1]) * f)
            h = h0 + (h1 - h0) * f
            for lat in (0.0, 0.55 * h, -0.55 * h, h - 1.5 * band, -(h - 1.5 * band), h + 2.5 * band, -(h + 2.5 * band), 1.6 * h + 3 * band, -(1.6 * h + 3 * band),
                        3.0 * h + 4 * band, -(3.0 * h + 4 * band)):
                cand.append((c[0] + N[0] * lat, c[1] + N[1] * lat))
    # caps
    for c in m.caps:
        E, t, h = c["E"], c["t"], c["hw"]
        N = (-t[1], t[0])
        for lat in (0.0, 0.7 * h, -0.7 * h):
            for d in (-2.5 * band, 2.5 * band, 0.5 * h + 2 * band, h - 1.5 * band, h + 2.5 * band, 2 * h + 3 * band):
                cand.append((E[0] + t[0] * d + N[0] * lat, E[1] + t[1] * d + N[1] * lat))
        for ang in (-1.2, -0.6, 0.0, 0.6, 1.2):
            for r in (h - 1.5 * band, h + 2.5 * band):
                ca, sa = math.cos(ang), math.sin(ang)
                cand.append((E[0] + (t[0] * ca - t[1] * sa) * r, E[1] + (t[1] * ca + t[0] * sa) * r))
    X = np.array(cand, dtype=float)
    inside, near = m.classify(X, band)
    nearj = m.near_joints(X, band)
    res = []
    for i in range(len(cand)):
        if inside[i]:
            res.append((cand[i][0], cand[i][1], "in"))
        elif not near[i] and not nearj[i]:
            res.append((cand[i][0], cand[i][1], "out"))
    # joints: points on the outer bisector
    for ji, j in enumerate(m.joints):
        if j["theta"] < math.radians(8):
            continue
        tA, tB = j["tA"], j["tB"]
        b = (tA[0] - tB[0], tA[1] - tB[1])      # points to the outer side of the turn
        if math.hypot(*b) < 1e-9:
            continue
        b = unit(b)
        pts, want = [], []
        # tapering widths tilt the two edges: the exact join geometry moves by about half-width x slope / cos^2
        slope = sum(abs(m.pieces[k][3] - m.pieces[k][2]) / m.L[k] for k in j["pieces"])
        bj = band + 1.5 * slope * j["hw"] / max(math.cos(j["theta"] / 2), 0.2) ** 2
        for d, w in ((j["inner"] - 2.0 * bj, "in"), (0.5 * j["inner"], "in"), (j["exact_outer"] + 2.5 * bj, "out"), (j["exact_outer"] + 6 * bj + 0.3 * j["hw"], "out")):
            if d <= 0:
                continue
            pts.append((j["J"][0] + b[0] * d, j["J"][1] + b[1] * d))
            want.append(w)
        if not pts:
            continue
        Xj = np.array(pts, dtype=float)
        _, near_other = m.classify(Xj, band, skip_pieces=j["pieces"])
        nearj2 = m.near_joints(Xj, band, skip=ji)
        for p, w, no, nj in zip(pts, want, near_other, nearj2):
            if w == "in":
                res.append((p[0], p[1], "in"))
            elif not no and not nj:
                res.append((p[0], p[1], "out"))
    return res


def winding(X, V):
    """nonzero-winding membership of points X (m,2) in the closed polygon V (n,2)"""
    X = np.asarray(X, dtype=float)
    V = np.asarray(V, dtype=float)
    A = V
    B = np.roll(V, -1, axis=0)
    px, py = X[:, 0][:, None], X[:, 1][:, None]
    ax, ay, bx, by = A[:, 0][None, :], A[:, 1][None, :], B[:, 0][None, :], B[:, 1][None, :]
    cross = (bx - ax) * (py - ay) - (by - ay) * (px - ax)
    up = (ay <= py) & (by > py) & (cross > 0)
    dn = (ay > py) & (by <= py) & (cross < 0)
    return (up.sum(axis=1) - dn.sum(axis=1)) != 0


def boundary_distance(X, V):
    X = np.asarray(X, dtype=float)
    V = np.asarray(V, dtype=float)
    A = V
    B = np.roll(V, -1, axis=0)
    d = B - A
    l2 = (d ** 2).sum(axis=1)
    l2 = np.where(l2 == 0, 1e-300, l2)
    t = ((X[:, None, :] - A[None, :, :]) * d[None, :, :]).sum(axis=2) / l2[None, :]
    t = np.clip(t, 0, 1)
    proj = A[None, :, :] + t[:, :, None] * d[None, :, :]
    return np.sqrt(((X[:, None, :] - proj) ** 2).sum(axis=2)).min(axis=1)


def probe(m, poly, band):
    """returns (n_in, n_out, failure or None)"""
    S = samples(m, band)
    if not S:
        return 0, 0, None
    X = np.array([(s[0], s[1]) for s in S], dtype=float)
    V = np.array(poly, dtype=float)
    if not np.isfinite(V).all():
        return 0, 0, "the outline has a non-finite vertex"
    w = winding(X, V)
    n_in = n_out = 0
    for i, s in enumerate(S):
        if s[2] == "in":
            n_in += 1
            if not w[i]:
                d = float(boundary_distance(X[i:i + 1], V)[0])
                return n_in, n_out, "point (%.6g, %.6g) lies within the swept region (more than %.3g inside) but outside the outline (%.3g from its boundary)" % (s[0], s[1], band, d)
        else:
            n_out += 1
            if w[i]:
                d = float(boundary_distance(X[i:i + 1], V)[0])
                return n_in, n_out, "point (%.6g, %.6g) lies beyond the reach of the path (by more than %.3g) but inside the outline (%.3g from its boundary)" % (s[0], s[1], band, d)
    return n_in, n_out, None
