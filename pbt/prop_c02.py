"""C02 - OASIS save/load round trip preserves the layout under every writer option."""
import math
import os
import zlib

from hypothesis import strategies as st

import layoutgen as lg
import oasmodel as om
import repgen
from common import Violation, WARNINGS, fl
from gdsmodel import Mismatch

LEVEL = "exploration"
RULE = ("Hypothesis-generated libraries in the OASIS domain (1-5 cells, acyclic references by pointer / by name / dangling / to a "
        "cell that is not added to the library, 32-bit layer and datatype numbers, coordinates on the precision grid plus a "
        "sub-grid jitter <= 0.3, magnitudes up to 2^31, five unit/precision pairs): polygons of the generic families plus "
        "shapes that exercise the detectors (rectangles and squares in every vertex order and orientation, horizontal and "
        "vertical trapezoids with deltas of either sign, the 45-degree shapes of the compact-trapezoid table and near misses "
        "one grid unit off, regular polygons approximating circles at / near the detection tolerance), simple flex and "
        "robust paths with flush / half-width / extended ends, outlined paths, labels, every repetition kind on every element "
        "kind (negative and duplicate coordinates, off-grid vectors), user properties with unsigned / signed / real / text / "
        "binary values (1-3 and 14-16 values, order kept) and GDSII-style properties; options: all 256 flag bytes, deflate level 0-9, "
        "circle tolerance {0, 1e-3, 1e-2} x unit; 1-3 save/load cycles. Oracle: Python model of the expected reloaded library "
        "(pbt/oasmodel.py) with both sides expanded to placements: every element must re-appear with its tag, its properties "
        "in order and its coordinates on the grid within 0.5 grid unit (plus 0.5 per rounded lattice summand of an off-grid "
        "repetition); detected circles within circle tolerance + read tolerance + 1 grid unit (Hausdorff); a requested "
        "signature must validate and equal zlib.crc32 / the byte sum computed here; cycles 2 and 3 reproduce cycle 1. "
        "Non-trivial: a detector-relevant shape or a repetition or a property with >= 2 values, and flags != 0; distinct by case hash")
ASSUMPTIONS = ["centre lines of simple paths and outlines of non-simple paths are taken from gdstk (C07/C08 judge them)",
               "round-ended simple paths are outside the stated domain (known finding C07-K1) and not generated",
               "S_* standard properties added by the writer at file/cell level are not compared here (C04 checks their truth)"]

BIG = [0, 1, 2, 255, 256, 65535, 65536, 2 ** 31 - 1, 2 ** 31, 2 ** 32 - 1]


@st.composite
def oas_value(draw):
    t = draw(st.sampled_from(["u", "i", "r", "s", "s"]))
    if t == "u":
        return ["u", draw(st.sampled_from([0, 1, 127, 128, 300, 2 ** 32, 2 ** 63, 2 ** 64 - 1]))]
    if t == "i":
        return ["i", draw(st.sampled_from([0, -1, 1, -64, 63, -65, 2 ** 40, -2 ** 62, 2 ** 63 - 1, -2 ** 63 + 1]))]
    if t == "r":
        return ["r", draw(st.sampled_from([0.0, 0.5, -2.0, 1.0 / 3, 1e-9, 3.0, 1e300, -7.25, 2.0 ** 70, 1e-300]))]
    b = draw(st.binary(min_size=0, max_size=6))
    if draw(st.booleans()):
        b = draw(st.text(alphabet="abcXYZ 019!~", min_size=1, max_size=8)).encode("ascii")
    return ["s", b.hex()]


@st.composite
def oas_props(draw):
    out = []
    for _ in range(draw(st.sampled_from([0, 0, 1, 1, 2, 3]))):
        if draw(st.integers(0, 4)) == 0:
            attr = draw(st.sampled_from([0, 1, 7, 65535]))
            if any(len(p) == 2 and p[0] == attr for p in out):
                continue      # set_gds_property replaces the value of an existing attribute
            out.append([attr, draw(st.text(alphabet="abc XYZ09", min_size=1, max_size=6))])
        else:
            name = draw(st.sampled_from(["P", "prop_a", "S_USER", "x" * 20, "name with space", "A1", "prop_a"]))
            # (the PROPERTY info byte holds counts 0-14; 15 announces an explicit count: both sides of that boundary)
            out.append([name, [draw(oas_value()) for _ in range(draw(st.sampled_from([1, 1, 1, 2, 2, 3, 14, 15, 16])))]])
    return out


WRITER_STD = ("S_MAX_SIGNED_INTEGER_WIDTH", "S_MAX_UNSIGNED_INTEGER_WIDTH", "S_MAX_STRING_LENGTH", "S_POLYGON_MAX_VERTICES", "S_PATH_MAX_VERTICES", "S_TOP_CELL",
              "S_BOUNDING_BOXES_AVAILABLE", "S_BOUNDING_BOX", "S_CELL_OFFSET")


def rot_cycle(pts, k, rev):
    pts = pts[k % len(pts):] + pts[:k % len(pts)]
    return pts[::-1] if rev else pts


@st.composite
def detector_polygon(draw, origin):
    fam = draw(st.sampled_from(["rect", "square", "htrap", "vtrap", "ctrap", "ctrap", "tri", "near", "stair45", "stair45", "octagon"]))
    x0 = origin[0] + draw(st.integers(-500, 500))
    y0 = origin[1] + draw(st.integers(-500, 500))
    w = draw(st.sampled_from([1, 2, 5, 10, 40, 300]))
    h = draw(st.sampled_from([1, 2, 5, 10, 40, 300]))
    if fam == "rect":
        pts = [[0, 0], [w, 0], [w, h], [0, h]]
    elif fam == "square":
        pts = [[0, 0], [w, 0], [w, w], [0, w]]
    elif fam == "stair45":
        # Manhattan staircase closed by one 45-degree edge (the implicit Manhattan point-list forms must not be chosen)
        a = draw(st.sampled_from([2, 4, 10]))
        pts = [[0, 0], [3 * a, 0], [3 * a, 2 * a], [2 * a, 2 * a], [2 * a, a], [a, a]]
        if draw(st.booleans()):
            pts = [[0, 0], [4 * a, 0], [4 * a, 3 * a], [3 * a, 3 * a]]      # right trapezoid: closing edge (3a,3a)->(0,0)
        if draw(st.booleans()):
            pts = [[p[1], p[0]] for p in pts]
    elif fam == "octagon":
        a, b = draw(st.sampled_from([1, 3, 10])), draw(st.sampled_from([2, 5, 20]))
        pts = [[a, 0], [a + b, 0], [2 * a + b, a], [2 * a + b, a + b], [a + b, 2 * a + b], [a, 2 * a + b], [0, a + b], [0, a]]
    elif fam in ("htrap", "vtrap"):
        a = draw(st.integers(-w, w))
        b = draw(st.integers(-w, w))
        pts = [[0, 0], [w + abs(a) + abs(b), 0], [w + abs(a) + abs(b) - b, h], [a, h]]
        if fam == "vtrap":
            pts = [[p[1], p[0]] for p in pts]
    elif fam in ("ctrap", "near"):
        # 45-degree shapes: slanted sides with |delta| == height (or 0)
        a = draw(st.sampled_from([0, h, -h]))
        b = draw(st.sampled_from([0, h, -h]))
        top = w + 2 * h
        pts = [[0, 0], [top, 0], [top - b, h], [a, h]]
        if pts[2][0] <= pts[3][0]:
            pts = [[0, 0], [top, 0], [top, h], [0, h]]
        if draw(st.booleans()):
            pts = [[p[0], -p[1]] for p in pts]
        if draw(st.booleans()):
            pts = [[p[1], p[0]] for p in pts]
        if fam == "near":
            i = draw(st.integers(0, 3))
            pts[i] = [pts[i][0] + draw(st.sampled_from([-1, 1])), pts[i][1]]
    else:
        k = draw(st.sampled_from(["right", "right", "iso"]))
        if k == "right":
            pts = [[0, 0], [h, 0], [0, h]]
            sx, sy = draw(st.sampled_from([1, -1])), draw(st.sampled_from([1, -1]))
            pts = [[p[0] * sx, p[1] * sy] for p in pts]
        else:
            pts = [[0, 0], [2 * h, 0], [h, h]]
            if draw(st.booleans()):
                pts = [[p[0], -p[1]] for p in pts]
            if draw(st.booleans()):
                pts = [[p[1], p[0]] for p in pts]
    pts = rot_cycle(pts, draw(st.integers(0, 7)), draw(st.booleans()))
    jit = draw(st.sampled_from([0.0, 0.0, 0.25, -0.3]))
    out = [[float(p[0] + x0) + jit, float(p[1] + y0) - jit] for p in pts]
    return {"tag": [draw(st.sampled_from(BIG)), draw(st.sampled_from(BIG))], "pts": out, "rep": draw(st.one_of(st.none(), st.none(), lg.grid_rep())), "props": draw(oas_props()),
            "detector": fam}


@st.composite
def circle_polygon(draw, origin, g_per_user):
    """regular polygon approximating a circle to the tolerance tol (grid units)"""
    r = draw(st.sampled_from([60.0, 200.0, 1000.0, 333.3]))
    tol = draw(st.sampled_from([1e-3, 1e-2])) * g_per_user
    n = max(8, int(math.ceil(math.pi / math.acos(max(-1.0, 1 - min(tol, r) / r)))))
    n = min(n, 120)
    cx = origin[0] + draw(st.integers(-300, 300)) + draw(st.sampled_from([0.0, 0.3]))
    cy = origin[1] + draw(st.integers(-300, 300))
    ph = draw(st.sampled_from([0.0, 0.1, 1.0]))
    pert = draw(st.sampled_from([0.0, 0.0, 0.0, 3.0]))
    pts = [[cx + r * math.cos(ph + 2 * math.pi * i / n), cy + r * math.sin(ph + 2 * math.pi * i / n)] for i in range(n)]
    if pert:
        pts[1][0] += pert
    return {"tag": [draw(st.sampled_from(BIG)), 0], "pts": pts, "rep": None, "props": draw(oas_props()), "circle": True, "detector": "circle"}


@st.composite
def case_strategy(draw, thorough=False):
    lib = draw(lg.library(props=oas_props, nonneg_width=True, path_kinds=("simple_fp", "simple_fp", "outline_fp", "rp", "simple_rp"), label_full=False))
    g_per_user = lib["unit"] / lib["precision"]
    for c in lib["cells"]:
        for e in c["polys"] + c["labels"]:
            if draw(st.integers(0, 2)) == 0:
                e["tag"] = [draw(st.sampled_from(BIG)), draw(st.sampled_from(BIG))]
        for p in c["paths"]:
            # simple robust paths that were scaled after construction (integer factors: no rounding ties in the extensions)
            if p["kind"] == "rp" and p["simple"] and draw(st.integers(0, 2)) == 0:
                p["prescale"] = draw(st.sampled_from([2.0, 3.0]))
            for e in p["els"]:
                if e["end"] == "round":
                    e["end"] = draw(st.sampled_from(["flush", "halfwidth", "extended"]))
                if draw(st.integers(0, 2)) == 0:
                    e["tag"] = [draw(st.sampled_from(BIG)), draw(st.sampled_from(BIG))]
    c0 = lib["cells"][draw(st.integers(0, len(lib["cells"]) - 1))]
    ox = c0["polys"][0]["pts"][0] if c0["polys"] else [0.0, 0.0]
    origin = (int(ox[0]), int(ox[1]))
    for _ in range(draw(st.integers(0, 3))):
        c0["polys"].append(draw(detector_polygon(origin)))
    if draw(st.integers(0, 2)) == 0:
        c0["polys"].append(draw(circle_polygon(origin, g_per_user)))
    # a leaf cell that is referenced by pointer but never added to the library
    if len(lib["cells"]) >= 2 and draw(st.integers(0, 3)) == 0:
        last = lib["cells"][-1]
        if not last["refs"] and any(r["kind"] == "cell" and r["target"] == len(lib["cells"]) - 1 for c in lib["cells"] for r in c["refs"]):
            last["outside"] = True
            for c in lib["cells"]:
                for r in c["refs"]:
                    if r["kind"] == "name" and r["target"] == len(lib["cells"]) - 1:
                        r["kind"] = "cell"
    # properties of cells and of the library itself
    cellprops = {}
    for i, c in enumerate(lib["cells"]):
        if not c.get("outside") and draw(st.integers(0, 2)) == 0:
            cellprops[str(i)] = draw(oas_props())
    libprops = draw(oas_props()) if draw(st.booleans()) else []
    lib["cellprops"], lib["libprops"] = cellprops, libprops
    flags = draw(st.integers(0, 255))
    if draw(st.integers(0, 3)) == 0:
        flags = draw(st.sampled_from([0, 0x30, 0x0F, 0x40, 0x80, 0xFF, 0x3F]))
    return {"lib": lib, "flags": flags, "level": draw(st.integers(0, 9)), "circle_tol": draw(st.sampled_from([0.0, 1e-3, 1e-2])), "cycles": draw(st.sampled_from([1, 1, 2, 3]))}


def canon_dump(dump):
    """representation-independent canonical form of a dumped library (grid units), for cycle comparison"""
    g = dump["precision"] / dump["unit"]
    out = {}
    for c in dump["cells"]:
        polys, paths, labels, refs = om.expand_got(c, g, strict=False)
        name = bytes.fromhex(c["name"]).decode("latin-1")

        def rp(p):
            return (round(p[0], 3), round(p[1], 3))
        out[name] = {
            "polys": sorted(repr((x["tag"], [rp(p) for p in x["pts"]], x["props"])) for x in polys),
            "paths": sorted(repr((x["tag"], [q for i, q in enumerate([rp(p) for p in x["spine"]]) if i == 0 or q != rp(x["spine"][i - 1])], sorted(set(round(h, 6) for h in x["hw"])), x["end"], [round(v, 6) for v in x["ext"]], x["props"])) for x in paths),
            "labels": sorted(repr((x["tag"], x["text"], rp(x["pos"]), x["props"])) for x in labels),
            "refs": sorted(repr((x["target"], rp(x["pos"]), x["rot"], x["mag"], x["xr"], x["type"], x["props"])) for x in refs),
            "props": [repr([p_ for p_ in om.dumped_props(c["props"]) if p_[0] not in WRITER_STD])],
        }
    return out


def check(ctx, case):
    lib = case["lib"]
    lines, qindex = lg.build_script(lib, "L")
    nq = len(qindex)
    for i, props in sorted(lib.get("cellprops", {}).items()):
        lines += lg.prop_lines("cell", "L.c%s" % i, props)
    lines += lg.prop_lines("lib", "L", lib.get("libprops", []))
    path = ctx.path("rt.oas")
    unit = lib["unit"]
    ctol = case["circle_tol"]          # user units
    rtol = 0.25 * lib["precision"] / lib["unit"]     # a quarter grid unit, in the library's user units
    if ctol > 0:
        # a re-loaded circle is only detected again if it was rebuilt at least as finely as the detection tolerance demands
        rtol = min(rtol, 0.5 * ctol)
    rtol_um = rtol * lib["unit"] / 1e-6               # the same length in micrometres (the unit of every re-loaded library)
    flags = case["flags"]
    lines.append("io write_oas L %s %s %d %d" % (path, fl(ctol), case["level"], flags))
    lines.append("io read_oas R1 %s 0 %s" % (path, fl(rtol_um)))
    lines.append("dump lib R1")
    lines.append("io oas_validate %s" % path)
    prev = "R1"
    for k in range(2, case["cycles"] + 1):
        p2 = ctx.path("rt%d.oas" % k)
        lines.append("io write_oas %s %s %s %d %d" % (prev, p2, fl(ctol * unit / 1e-6), case["level"], flags))
        lines.append("io read_oas R%d %s 0 %s" % (k, p2, fl(rtol_um)))
        lines.append("dump lib R%d" % k)
        prev = "R%d" % k
    outs = ctx.run(lines, case)
    queries = {qindex[i]: outs[i] for i in range(nq)}
    for q in queries.values():
        errs = [c["err"] for c in q["centers"]] if "centers" in q else [q["err"]]
        if any(e != 0 for e in errs):
            ctx.stats.note(case, False, ["path_outline_error"])
            return
    w, r, d, val = outs[nq], outs[nq + 1], outs[nq + 2], outs[nq + 3]

    def fail(msg):
        raise Violation("OASIS round trip (flags 0x%02x, level %d, circle tolerance %g): %s" % (flags, case["level"], ctol, msg), case, None, None, lines)
    if w["err"] not in WARNINGS:
        fail("write_oas returned error %d" % w["err"])
    if r["err"] not in WARNINGS:
        fail("read_oas of the file just written returned error %d" % r["err"])
    exp = om.expected(lib, queries)
    # the reloaded library is in micrometres: the read tolerance was given in those units
    try:
        om.compare_library(lib, exp, d["lib"], ctol, rtol, ctx.stats)
    except Mismatch as m:
        fail(str(m))
    # properties of cells and of the library (the writer's own standard properties are C04's subject)
    got_lib = [p_ for p_ in om.dumped_props(d["lib"]["props"]) if p_[0] not in WRITER_STD]
    if not om.props_same(om.canon_props(lib.get("libprops", [])), got_lib):
        fail("library properties re-loaded as %s, saved %s" % (got_lib, om.canon_props(lib.get("libprops", []))))
    byname = {bytes.fromhex(c["name"]).decode("latin-1"): c for c in d["lib"]["cells"]}
    for i, c in enumerate(lib["cells"]):
        if c.get("outside"):
            continue
        want_p = om.canon_props(lib.get("cellprops", {}).get(str(i), []))
        got_p = [p_ for p_ in om.dumped_props(byname[c["name"]]["props"]) if p_[0] not in WRITER_STD]
        if not om.props_same(want_p, got_p):
            fail("properties of cell %r re-loaded as %s, saved %s" % (c["name"], got_p, want_p))
    # signature
    data = open(path, "rb").read()
    if flags & 0x40 or flags & 0x80:
        if not val["ok"] or val["err"] != 0:
            fail("oas_validate says ok=%s err=%d for a file written with a signature" % (val["ok"], val["err"]))
        want = (zlib.crc32(data[:-4]) & 0xFFFFFFFF) if flags & 0x40 else (sum(data[:-4]) & 0xFFFFFFFF)
        stored = int.from_bytes(data[-4:], "little")
        if val["signature"] != want or stored != want:
            fail("signature: oas_validate reports %d, the file stores %d, the %s of its bytes is %d" % (val["signature"], stored, "CRC32" if flags & 0x40 else "byte sum", want))
    first = canon_dump(d["lib"])
    for k in range(2, case["cycles"] + 1):
        o = outs[nq + 4 + 3 * (k - 2): nq + 4 + 3 * (k - 1)]
        if o[0]["err"] not in WARNINGS or o[1]["err"] not in WARNINGS:
            fail("cycle %d: write/read error %d/%d" % (k, o[0]["err"], o[1]["err"]))
        nxt = canon_dump(o[2]["lib"])
        if nxt != first:
            for name in first:
                for kind in first[name]:
                    a, b = first[name][kind], nxt.get(name, {}).get(kind)
                    if a != b:
                        da = [x for x in a if b is None or x not in b][:2]
                        db = [x for x in (b or []) if x not in a][:2]
                        fail("save/load cycle %d changed cell %r %s again: %s became %s" % (k, name, kind, da, db))
            fail("save/load cycle %d changed the cell list" % k)
    feat = False
    labels = ["flags_%s" % ("0" if flags == 0 else "nonzero"), "level_%d" % case["level"], "cycles_%d" % case["cycles"]]
    if flags & 0x10:
        labels.append("detect_rectangles")
    if flags & 0x20:
        labels.append("detect_trapezoids")
    if flags & 0xC0:
        labels.append("signature")
    if ctol > 0:
        labels.append("circle_detection")
    for c in lib["cells"]:
        if c.get("outside"):
            labels.append("reference_to_cell_outside_library")
        for e in c["polys"] + c["paths"] + c["labels"] + c["refs"]:
            if e.get("rep") is not None:
                feat = True
                labels.append("rep_" + e["rep"]["type"])
            if any(len(p) == 2 and not isinstance(p[0], int) and len(p[1]) >= 2 for p in e.get("props", [])):
                feat = True
            if e.get("detector"):
                feat = True
                labels.append("shape_" + e["detector"])
    ctx.stats.note(case, feat and flags != 0, sorted(set(labels)))


def run_worker(ctx):
    n = ctx.share(3000 if ctx.tier == "quick" else 30000)
    v = ctx.hypothesis(check, case_strategy(ctx.tier != "quick"), n, "roundtrip", shrink=ctx.tier != "quick")
    return [v] if v else []


def replay(ctx, test, case, ignore_known=False):
    return check(ctx, case)
