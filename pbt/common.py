"""Shared machinery: driver client, parallel Hypothesis runner, evidence, replay, known findings."""
import hashlib
import json
import multiprocessing as mp
import os
import select
import shutil
import signal
import subprocess
import sys
import tempfile
import time
import traceback

VERIF = os.path.dirname(os.path.dirname(os.path.abspath(__file__)))
NWORKERS = int(os.environ.get("VERIF_WORKERS", "16"))

ERR = {0: "NoError", 1: "BooleanError", 2: "EmptyPath", 3: "IntersectionNotFound", 4: "MissingReference",
       5: "UnsupportedRecord", 6: "UnofficialSpecification", 7: "InvalidRepetition", 8: "Overflow",
       9: "ChecksumError", 10: "OutputFileOpenError", 11: "InputFileOpenError", 12: "InputFileError",
       13: "FileError", 14: "InvalidFile", 15: "InsufficientMemory", 16: "ZlibError"}
WARNINGS = {0, 2, 3, 4, 5, 6, 7, 8}  # codes that gdstk documents as warnings (result still produced)


def hx(s):
    """hex-encode a str/bytes for the driver ('-' for empty)."""
    if isinstance(s, str):
        s = s.encode("latin-1")
    return s.hex() if s else "-"


def unhx(s):
    return None if s is None else bytes.fromhex(s)


def fl(x):
    """exact text form of a float for the driver (strtod parses hex floats)."""
    if isinstance(x, int):
        return repr(float(x)) if abs(x) < 2 ** 53 else float(x).hex()
    if x != x:
        return "nan"
    if x in (float("inf"), float("-inf")):
        return "inf" if x > 0 else "-inf"
    return float(x).hex()


class DriverCrash(Exception):
    def __init__(self, kind, detail):
        super().__init__("%s: %s" % (kind, detail))
        self.kind = kind
        self.detail = detail


class Inconclusive(Exception):
    """the case could not be judged (watchdog); it is counted and skipped"""


class Violation(Exception):
    """Raised by a property check when the oracle is contradicted."""

    def __init__(self, what, case=None, expected=None, observed=None, script=None):
        super().__init__(what)
        self.what = what
        self.case = case
        self.expected = expected
        self.observed = observed
        self.script = script


UB_KINDS_FATAL = ("member access within null", "member call on null", "load of null", "store to null",
                  "reference binding to null", "out of bounds", "shift exponent", "left shift of",
                  "signed integer overflow", "applying non-zero offset")
# Deliberately not fatal: "null pointer passed as argument ... declared to never be null" (memcpy(NULL, NULL, 0) in
# Array::extend/copy of empty arrays) and "applying zero offset to null pointer": benign on every supported target.


class Driver:
    """One gdstk_driver subprocess; restarted transparently after a crash."""

    def __init__(self, build_dir, tmpdir, watchdog=20, recycle=1500, exe_name="gdstk_driver"):
        self.exe = os.path.join(build_dir, exe_name)
        self.tmpdir = tmpdir
        self.watchdog = watchdog
        self.recycle = recycle
        self.proc = None
        self.ncalls = 0
        self.syncno = 0
        self.errpath = os.path.join(tmpdir, "%s.stderr" % exe_name)
        self.errpos = 0
        self.last_stderr = ""
        self.ubsan_sites = {}
        self.crashes = 0

    def start(self):
        self.stop()
        self.errf = open(self.errpath, "wb")
        self.errpos = 0
        env = dict(os.environ)
        env["ASAN_OPTIONS"] = "detect_leaks=0:abort_on_error=1:allocator_may_return_null=0:max_allocation_size_mb=2048:handle_abort=0"
        env["UBSAN_OPTIONS"] = "print_stacktrace=0:halt_on_error=0"
        self.proc = subprocess.Popen([self.exe], stdin=subprocess.PIPE, stdout=subprocess.PIPE, stderr=self.errf,
                                     env=env, bufsize=0)
        self.ncalls = 0
        self.rbuf = b""
        if self.watchdog != 20:
            self.proc.stdin.write(("watchdog %d\n" % self.watchdog).encode())

    def stop(self):
        if self.proc is not None:
            try:
                self.proc.kill()
            except Exception:
                pass
            try:
                self.proc.wait(timeout=5)
            except Exception:
                pass
            for f in (self.proc.stdin, self.proc.stdout):
                try:
                    f.close()
                except Exception:
                    pass
            self.proc = None
            try:
                self.errf.close()
            except Exception:
                pass

    def _read_stderr(self):
        try:
            with open(self.errpath, "rb") as fh:
                fh.seek(self.errpos)
                data = fh.read()
                self.errpos += len(data)
        except OSError:
            data = b""
        return data.decode("latin-1")

    def run(self, lines, timeout=None):
        """Execute a script (list of command lines); returns the list of decoded JSON outputs.
        Raises DriverCrash when the driver dies or hangs."""
        if self.proc is None or self.proc.poll() is not None or self.ncalls >= self.recycle:
            self.start()
        self.ncalls += 1
        self.syncno += 1
        payload = ("begin\nreset\n" + "\n".join(lines) + "\nsync %d\n" % self.syncno).encode()
        deadline = time.time() + (timeout or (self.watchdog + 10))
        outs = []
        try:
            # write in chunks while draining (outputs only appear at sync, so a plain write is safe)
            self.proc.stdin.write(payload)
            self.proc.stdin.flush()
        except (BrokenPipeError, OSError):
            pass
        fd = self.proc.stdout.fileno()
        done = False
        while not done:
            nl = self.rbuf.find(b"\n")
            while nl >= 0:
                line = self.rbuf[:nl]
                self.rbuf = self.rbuf[nl + 1:]
                if line:
                    try:
                        obj = json.loads(line)
                    except Exception:
                        raise DriverCrash("protocol", "bad output line %r" % line[:200])
                    if isinstance(obj, dict) and obj.get("sync") == self.syncno and len(obj) == 1:
                        done = True
                        break
                    outs.append(obj)
                nl = self.rbuf.find(b"\n")
            if done:
                break
            remaining = deadline - time.time()
            if remaining <= 0:
                self.stop()
                self.crashes += 1
                raise DriverCrash("hang", "no answer within the watchdog")
            r, _, _ = select.select([fd], [], [], min(remaining, 1.0))
            if r:
                chunk = os.read(fd, 1 << 20)
                if not chunk:
                    rc = self.proc.wait()
                    err = self._read_stderr()
                    self.last_stderr = err
                    self.stop()
                    self.crashes += 1
                    sig = -rc if rc < 0 else rc
                    kind = "hang" if sig == signal.SIGALRM else "crash"
                    raise DriverCrash(kind, "signal/exit %s; %s" % (sig, summarise_stderr(err)))
                self.rbuf += chunk
        err = self._read_stderr()
        self.last_stderr = err
        self.last_ub = []
        if err:
            for ln in err.splitlines():
                if "runtime error:" in ln:
                    site = ln.split("runtime error:")[0].strip().rstrip(":")
                    site = site.replace(os.environ.get("VERIF_REPO", "/repo"), "")
                    msg = ln.split("runtime error:")[1].strip()
                    key = site + " " + " ".join(msg.split()[:6])
                    self.ubsan_sites[key] = self.ubsan_sites.get(key, 0) + 1
                    self.last_ub.append((site, msg))
        return outs

    def fatal_ub(self):
        """UBSan reports of the kinds that C18/C19/C20 treat as failures."""
        return [(s, m) for (s, m) in getattr(self, "last_ub", []) if any(k in m for k in UB_KINDS_FATAL)]


def summarise_stderr(err):
    lines = [l for l in err.splitlines() if l.strip()]
    head = [l for l in lines if "ERROR: AddressSanitizer" in l or "runtime error" in l or "DRIVER:" in l][:2]
    frames = [l.strip() for l in lines if l.strip().startswith("#") and ("/src/" in l or "/include/gdstk" in l or "clipper" in l)][:3]
    return " | ".join(head + frames)[:800]


def case_hash(obj):
    return hashlib.sha1(json.dumps(obj, sort_keys=True, default=str).encode()).hexdigest()[:16]


class Stats:
    def __init__(self):
        self.evaluations = 0
        self.nontrivial = set()
        self.labels = {}
        self.samples = []
        self.extra = {}
        self.maxima = {}

    def note(self, case, nontrivial, labels=(), sample=None):
        self.evaluations += 1
        for l in labels:
            self.labels[l] = self.labels.get(l, 0) + 1
        if nontrivial:
            h = case if isinstance(case, str) else case_hash(case)
            if h not in self.nontrivial:
                self.nontrivial.add(h)
                if len(self.samples) < 3:
                    s = sample if sample is not None else case
                    txt = json.dumps(s, default=str)
                    if len(txt) > 3000:
                        s = {"truncated": txt[:3000]}
                    self.samples.append(s)

    def count(self, key, n=1):
        self.extra[key] = self.extra.get(key, 0) + n

    def maximum(self, key, v):
        if key not in self.maxima or v > self.maxima[key]:
            self.maxima[key] = v

    def merge(self, other):
        self.evaluations += other.evaluations
        self.nontrivial |= other.nontrivial
        for k, v in other.labels.items():
            self.labels[k] = self.labels.get(k, 0) + v
        for k, v in other.extra.items():
            self.extra[k] = self.extra.get(k, "" if isinstance(v, str) else 0) + v
        for k, v in other.maxima.items():
            self.maximum(k, v)
        for s in other.samples:
            if len(self.samples) < 5:
                self.samples.append(s)


class Ctx:
    """Per-worker context handed to property modules."""

    def __init__(self, prop_id, tier, seed, worker, nworkers, build_dir, known):
        self.prop_id = prop_id
        self.tier = tier
        self.seed = seed
        self.worker = worker
        self.nworkers = nworkers
        self.build_dir = build_dir
        self.known = known  # list of known-finding entries for this property
        self.known_ids = {k["id"] for k in known}
        self.tmpdir = tempfile.mkdtemp(prefix="gdstk-verif-%s-" % prop_id)
        self.stats = Stats()
        self.driver = Driver(build_dir, self.tmpdir, watchdog=20 if tier == "quick" else 120)
        self.ub_is_fatal = prop_id in ("C18", "C19", "C20")
        self.hang_is_violation = prop_id in ("C07", "C08", "C12", "C18")

    def path(self, name):
        return os.path.join(self.tmpdir, name)

    def close(self):
        self.driver.stop()
        shutil.rmtree(self.tmpdir, ignore_errors=True)

    def share(self, total):
        """this worker's share of a total case budget"""
        base = total // self.nworkers
        return max(1, base + (1 if self.worker < total % self.nworkers else 0))

    def run(self, lines, case=None, timeout=None, hang_inconclusive=False):
        """Run a driver script; a crash or hang becomes a Violation carrying the case."""
        try:
            outs = self.driver.run(lines, timeout=timeout)
        except DriverCrash as e:
            if e.kind == "hang" and (hang_inconclusive or not self.hang_is_violation):
                # a watchdog hit is "inconclusive", never a violation, unless the property itself claims termination
                self.stats.count("inconclusive_watchdog_timeouts")
                raise Inconclusive()
            raise Violation("driver %s: %s" % (e.kind, e.detail), case=case, script=lines)
        if self.ub_is_fatal:
            ub = self.driver.fatal_ub()
            if ub:
                # UBSan reports each source location once per process: restart so that shrinking and
                # replay see the report again
                self.driver.stop()
                raise Violation("undefined behaviour: %s %s" % ub[0], case=case, script=lines)
        return outs

    def hypothesis(self, check, strategy, max_examples, name="", shrink=True):
        """Drive check(case) with Hypothesis; returns a Violation (minimal) or None."""
        import hypothesis
        from hypothesis import HealthCheck, given, settings, Phase

        holder = {}

        @hypothesis.seed(self.seed * 1000 + self.worker)
        @settings(max_examples=max_examples, database=None, deadline=None, derandomize=False,
                  report_multiple_bugs=False, print_blob=False,
                  suppress_health_check=[HealthCheck.too_slow, HealthCheck.data_too_large, HealthCheck.large_base_example],
                  phases=[Phase.explicit, Phase.generate, Phase.shrink] if shrink else [Phase.explicit, Phase.generate])
        @given(strategy)
        def test(case):
            t_case = time.time()
            try:
                check(self, case)
                dt = time.time() - t_case
                self.stats.maximum("slowest_case_s", round(dt, 2))
                if dt > 10 and len(self.stats.extra) < 200:
                    self.stats.count("cases_slower_than_10s")
                    if os.environ.get("VERIF_DEBUG_SLOW"):
                        sys.stderr.write("SLOW %.1fs worker=%d case=%s\n" % (dt, self.worker, json.dumps(case, default=str)))
            except Inconclusive:
                return
            except Violation as v:
                if v.case is None:
                    v.case = case
                holder["v"] = v
                raise

        try:
            test()
        except Violation as v:
            v.test = name
            return v
        except hypothesis.errors.Flaky as e:
            self.stats.count("flaky_" + name)
            return None
        return None


# ---------------------------------------------------------------------------------------------
def load_known(prop_id):
    p = os.path.join(VERIF, "known_findings.json")
    if not os.path.exists(p):
        return []
    with open(p) as fh:
        d = json.load(fh)
    return [k for k in d.get("known", []) if k["property"] == prop_id]


def build(repo=None, targets=("gdstk_driver",)):
    cmd = [sys.executable, os.path.join(VERIF, "driver", "build.py")]
    if repo:
        cmd += ["--repo", repo]
    out = None
    for t in targets:
        r = subprocess.run(cmd + ["--target", t], stdout=subprocess.PIPE, text=True)
        if r.returncode != 0:
            raise SystemExit("build failed")
        out = r.stdout.strip().splitlines()[-1]
    return out


def _worker(args):
    (modname, prop_id, tier, seed, worker, nworkers, build_dir, known) = args
    import importlib
    sys.setrecursionlimit(10000)
    mod = importlib.import_module(modname)
    ctx = Ctx(prop_id, tier, seed, worker, nworkers, build_dir, known)
    result = {"worker": worker, "violations": [], "error": None}
    t_worker = time.time()
    try:
        vs = mod.run_worker(ctx) or []
        for v in vs:
            # confirm three times on a fresh driver
            confirmed = 0
            last = None
            for _ in range(3):
                ctx.driver.stop()
                try:
                    mod.replay(ctx, getattr(v, "test", ""), v.case)
                except Inconclusive:
                    pass
                except Violation as v2:
                    confirmed += 1
                    last = v2
            if confirmed == 3:
                result["violations"].append({"test": getattr(v, "test", ""), "what": last.what, "case": v.case,
                                             "expected": last.expected, "observed": last.observed,
                                             "script": last.script})
            else:
                ctx.stats.count("flaky_not_reproduced")
    except Exception:
        result["error"] = traceback.format_exc()
    finally:
        st = ctx.stats
        st.maximum("slowest_worker_s", round(time.time() - t_worker, 1))
        st.extra["worker_%02d_s" % worker] = int(time.time() - t_worker)
        result["stats"] = {"evaluations": st.evaluations, "nontrivial": list(st.nontrivial), "labels": st.labels,
                           "samples": st.samples, "extra": st.extra, "maxima": st.maxima,
                           "ubsan": ctx.driver.ubsan_sites, "crashes": ctx.driver.crashes}
        ctx.close()
    return result


def jsonable(x):
    return json.loads(json.dumps(x, default=str))


def run_check(modname, prop_id, level, rule, assumptions, tier, seed, replay_path=None, nworkers=None):
    import importlib
    t0 = time.time()
    nworkers = nworkers or NWORKERS
    repo = os.environ.get("VERIF_REPO", "/repo")
    mod = importlib.import_module(modname)
    targets = getattr(mod, "TARGETS", ("gdstk_driver",))
    build_dir = build(repo, targets)
    known = load_known(prop_id)

    if replay_path:
        with open(replay_path) as fh:
            rec = json.load(fh)
        ctx = Ctx(prop_id, tier, seed, 0, 1, build_dir, known)
        try:
            mod.replay(ctx, rec.get("test", ""), rec["case"])
            print("replay: case passes")
            return 0
        except Inconclusive:
            print("replay: inconclusive (watchdog)")
            return 0
        except Violation as v:
            print("replay: %s" % v.what)
            print("VIOLATION property=%s replay=%s" % (prop_id, replay_path))
            return 1
        finally:
            ctx.close()

    # replay tier: every stored witness (fixed findings, earlier catches) is re-executed first
    regress = []
    rdir = os.path.join(VERIF, "replays", prop_id)
    known_witness = {os.path.join(VERIF, k["witness"]) for k in known}
    if os.path.isdir(rdir):
        ctx = Ctx(prop_id, tier, seed, 0, 1, build_dir, known)
        try:
            for f in sorted(os.listdir(rdir)):
                fp = os.path.join(rdir, f)
                if not f.endswith(".json") or fp in known_witness:
                    continue
                with open(fp) as fh:
                    rec = json.load(fh)
                try:
                    mod.replay(ctx, rec.get("test", ""), rec["case"])
                    ctx.stats.count("replayed_witnesses")
                except Inconclusive:
                    pass
                except Violation as v:
                    regress.append((fp, v.what))
        finally:
            rstats = ctx.stats
            ctx.close()
    else:
        rstats = Stats()

    args = [(modname, prop_id, tier, seed, w, nworkers, build_dir, known) for w in range(nworkers)]
    if nworkers == 1:
        results = [_worker(args[0])]
    else:
        with mp.get_context("fork").Pool(nworkers) as pool:
            results = pool.map(_worker, args)
    total = Stats()
    total.merge(rstats)
    ubsan = {}
    crashes = 0
    violations = []
    errors = []
    for r in results:
        s = Stats()
        st = r["stats"]
        s.evaluations = st["evaluations"]
        s.nontrivial = set(st["nontrivial"])
        s.labels = st["labels"]
        s.samples = st["samples"]
        s.extra = st["extra"]
        s.maxima = st["maxima"]
        total.merge(s)
        for k, v in st["ubsan"].items():
            ubsan[k] = ubsan.get(k, 0) + v
        crashes += st["crashes"]
        violations.extend(r["violations"])
        if r["error"]:
            errors.append(r["error"])

    # known findings: replay each witness, report it, never count it as a violation
    known_lines = []
    if known:
        ctx = Ctx(prop_id, tier, seed, 0, 1, build_dir, known)
        try:
            for k in known:
                wpath = os.path.join(VERIF, k["witness"])
                with open(wpath) as fh:
                    rec = json.load(fh)
                try:
                    mod.replay(ctx, rec.get("test", ""), rec["case"], ignore_known=True)
                    known_lines.append("NOTE: known finding %s no longer reproduces" % k["id"])
                except Inconclusive:
                    known_lines.append("KNOWN-FINDING: property=%s %s" % (prop_id, k["what"]))
                except Violation:
                    known_lines.append("KNOWN-FINDING: property=%s %s" % (prop_id, k["what"]))
        finally:
            ctx.close()

    # distinct violations by (test, what-prefix)
    out_paths = list(regress)
    seen = set()
    for v in violations:
        key = v["test"]
        if key in seen:
            continue
        seen.add(key)
        rec = {"property": prop_id, "test": v["test"], "what": v["what"], "case": jsonable(v["case"]),
               "expected": jsonable(v["expected"]), "observed": jsonable(v["observed"]),
               "script": v["script"], "seed": seed, "tier": tier, "tree": os.path.basename(build_dir)}
        d = os.path.join(VERIF, "replays", prop_id)
        os.makedirs(d, exist_ok=True)
        p = os.path.join(d, case_hash(rec["case"]) + ".json")
        with open(p, "w") as fh:
            json.dump(rec, fh, indent=1)
        out_paths.append((p, v["what"]))

    wall = time.time() - t0
    cov = {"evaluations": total.evaluations, "distinct_nontrivial": len(total.nontrivial), "rule": rule,
           "samples": jsonable(total.samples[:5]), "labels": dict(sorted(total.labels.items())),
           "counters": dict(sorted(total.extra.items())), "observed_maxima": total.maxima,
           "ubsan_reports": ubsan, "driver_crashes": crashes, "workers": nworkers,
           "known_findings_reported": len([l for l in known_lines if l.startswith("KNOWN")]),
           "tree": os.path.basename(build_dir)}
    if hasattr(mod, "extra_coverage"):
        cov.update(mod.extra_coverage(total))
    ev = {"property_id": prop_id, "tier": tier, "seed": seed, "level": level, "coverage": cov,
          "assumptions": assumptions, "wall_s": round(wall, 2), "violations": len(out_paths)}
    os.makedirs(os.path.join(VERIF, "evidence"), exist_ok=True)
    with open(os.path.join(VERIF, "evidence", prop_id + ".json"), "w") as fh:
        json.dump(ev, fh, indent=1)

    for l in known_lines:
        print(l)
    print("%s tier=%s seed=%d evaluations=%d distinct_nontrivial=%d wall=%.1fs" %
          (prop_id, tier, seed, total.evaluations, len(total.nontrivial), wall))
    if errors:
        print("INTERNAL ERROR in check machinery:\n" + errors[0])
        return 2
    for p, what in out_paths:
        print("  %s" % what[:300])
        print("VIOLATION property=%s replay=%s" % (prop_id, p))
    return 1 if out_paths else 0
