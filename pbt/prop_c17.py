"""C17 - partial and alternative readers agree with the full reader."""
import struct

from hypothesis import strategies as st

from common import Violation, WARNINGS, fl, hx
import gdsref
import layoutgen as lg
import prop_c03

LEVEL = "exploration"
RULE = ("Hypothesis cases: a GDSII file from one of two sources - a layoutgen library written by write_gds, or an abstract "
        "layout serialised by my own encoder (pbt/gdsref.py) with non-default choice points - plus a tag filter set (present "
        "tags, absent tags, mixtures, the empty set), a target unit, a subset of cells taken as raw cells and a new "
        "timestamp. Differential oracle with the full load as reference (Python does the bookkeeping): gds_info (cell names "
        "in file order, element counts, tag sets, unit/precision) vs dump(read_gds) and vs my strict decoder; gds_units and "
        "gds_timestamp(read) vs the full load / the decoded BGNLIB; read_gds with a filter = full load minus polygons and "
        "paths of other tags; read_gds with a target unit = native load with every length rescaled (incl. the default path "
        "tolerance); raw cells written through GdsWriter and through Library::write_gds re-load exactly as from the original "
        "and their structure bytes are identical; gds_timestamp(write) changes only the 24 data bytes of BGNLIB and each "
        "BGNSTR. Non-trivial: >= 2 cells and >= 3 element kinds, a filter that removes some but not all shapes, a target "
        "unit different from the file unit; distinct by case hash")
ASSUMPTIONS = ["an empty non-NULL filter set keeps no shape: the statement quantifies over all filter sets and the Python documentation "
               "says 'if not None, only shapes in the set'; the C++ header comment 'if shape_tags is not empty' is the looser wording",
               "pbt/gdsref.py decodes BGNLIB/BGNSTR and structure byte ranges"]


@st.composite
def case_strategy(draw):
    src = draw(st.sampled_from(["gdstk", "gdstk", "encoded"]))
    c = {"source": src}
    if src == "gdstk":
        c["lib"] = draw(lg.library(ncells=(1, 5), path_kinds=("simple_fp", "simple_fp", "outline_fp", "simple_rp"), origin_mag=draw(st.sampled_from([0, 0, 1 << 16]))))
        c["max_points"] = draw(st.sampled_from([0, 0, 8]))
        # layer / type numbers in the upper half of the 16-bit range (every reader must decode them the same way)
        if draw(st.integers(0, 2)) == 0:
            for cell in c["lib"]["cells"]:
                for e in cell["polys"] + cell["labels"] + [el for p in cell["paths"] for el in p["els"]]:
                    if draw(st.integers(0, 1)) == 0:
                        e["tag"] = draw(st.sampled_from([[40000, 7], [2, 65535], [32768, 32768], [65535, 0]]))
    else:
        lc = draw(prop_c03.layout_case())
        c["layout"], c["choices"] = lc["layout"], lc["choices"]
    present = set()
    if src == "gdstk":
        for cell in c["lib"]["cells"]:
            for p in cell["polys"]:
                present.add(tuple(p["tag"]))
            for p in cell["paths"]:
                for e in p["els"]:
                    present.add(tuple(e["tag"]))
    else:
        for s_ in c["layout"]["structs"]:
            for e in s_["elements"]:
                if e["kind"] in ("boundary", "box", "path"):
                    present.add((e["layer"], e["datatype"]))
    present = sorted(present)
    filt = set()
    for t in present:
        if draw(st.integers(0, 2)) == 0:
            filt.add(t)
    for _ in range(draw(st.integers(0, 2))):
        filt.add((draw(st.sampled_from([0, 1, 63, 256, 9999])), draw(st.sampled_from([0, 5, 255]))))
    if not filt and draw(st.integers(0, 2)) != 0:
        # (one time in three the set stays empty: "for all tag filter sets" - every shape is of another tag and is discarded)
        filt.add(present[0] if present and draw(st.booleans()) else (9999, 255))
    c["filter"] = [list(t) for t in sorted(filt)]
    c["target_unit"] = draw(st.sampled_from([1e-6, 1e-9, 1e-3, 3.7e-7, 2.5e-6]))
    c["raw_subset"] = draw(st.lists(st.integers(0, 4), min_size=0 if draw(st.integers(0, 3)) == 0 else 1, max_size=3, unique=True))
    c["timestamp"] = [draw(st.integers(1900, 2155)), draw(st.integers(1, 12)), draw(st.integers(1, 31)), draw(st.integers(0, 23)),
                      draw(st.integers(0, 59)), draw(st.integers(0, 59))]
    c["orig_timestamp"] = [draw(st.integers(1900, 2155)), draw(st.integers(1, 12)), draw(st.integers(1, 28)), draw(st.integers(0, 23)),
                           draw(st.integers(0, 59)), draw(st.integers(0, 59))]
    return c


def canon_cell(c, scale=1.0, drop_tol=True):
    """order-insensitive canonical form of a dumped cell with all lengths multiplied by scale"""
    import json

    def sc(v):
        return v * scale

    def rep(r):
        if r is None:
            return None
        r = dict(r)
        for k in ("spacing", "v1", "v2"):
            if k in r:
                r[k] = [sc(v) for v in r[k]]
        if "offsets" in r:
            r["offsets"] = [[sc(v) for v in o] for o in r["offsets"]]
        if "coords" in r:
            r["coords"] = [sc(v) for v in r["coords"]]
        return r
    out = {"polygons": [], "flexpaths": [], "labels": [], "refs": []}
    for p in c["polygons"]:
        out["polygons"].append({"tag": str(p["tag"]), "pts": [[sc(x), sc(y)] for x, y in p["pts"]], "props": sorted(map(json.dumps, p["props"]))})
    for f in c["flexpaths"]:
        out["flexpaths"].append({"spine": [[sc(x), sc(y)] for x, y in f["spine"]], "tol": None if drop_tol else sc(f["tolerance"]), "simple": f["simple"],
                                 "scale_width": f["scale_width"], "props": sorted(map(json.dumps, f["props"])),
                                 "els": [{"tag": str(e["tag"]), "hwo": [[sc(a), sc(b)] for a, b in e["hwo"]], "end": e["end"], "ext": [sc(e["ext"][0]), sc(e["ext"][1])]}
                                         for e in f["elements"]]})
    for l in c["labels"]:
        out["labels"].append({"tag": str(l["tag"]), "text": l["text"], "origin": [sc(l["origin"][0]), sc(l["origin"][1])], "anchor": l["anchor"],
                              "rotation": repr(float(l["rotation"])), "mag": repr(float(l["mag"])), "xrefl": l["xrefl"], "props": sorted(map(json.dumps, l["props"]))})
    for r in c["refs"]:
        out["refs"].append({"type": r["type"], "target": r["target"], "origin": [sc(r["origin"][0]), sc(r["origin"][1])], "rotation": repr(float(r["rotation"])),
                            "mag": repr(float(r["mag"])), "xrefl": r["xrefl"], "rep": rep(r["rep"]), "props": sorted(map(json.dumps, r["props"]))})
    return out


def flat(x, out):
    if isinstance(x, dict):
        for k in sorted(x):
            flat(x[k], out)
    elif isinstance(x, list):
        for y in x:
            flat(y, out)
    else:
        out.append(x)


def cells_equal(a, b, rel):
    """compare canonical cells as multisets per kind with relative tolerance on numbers"""
    for kind in ("polygons", "flexpaths", "labels", "refs"):
        if len(a[kind]) != len(b[kind]):
            return "number of %s: %d vs %d" % (kind, len(a[kind]), len(b[kind]))
        rest = list(b[kind])
        for ea in a[kind]:
            fa = []
            flat(ea, fa)
            # every number left in the canonical form is a length: differences of coordinates (array pitches) inherit the
            # rounding of the coordinates, so the tolerance is relative to the largest length of the element
            mag = max([abs(x) for x in fa if isinstance(x, (int, float)) and not isinstance(x, bool)] + [0.0])
            hit = None
            for i, eb in enumerate(rest):
                fb = []
                flat(eb, fb)
                if len(fa) != len(fb):
                    continue
                ok = True
                for x, y in zip(fa, fb):
                    if isinstance(x, (int, float)) and isinstance(y, (int, float)) and not isinstance(x, bool) and not isinstance(y, bool):
                        if abs(x - y) > rel * mag and abs(x - y) > 1e-300:
                            ok = False
                            break
                    elif x != y:
                        ok = False
                        break
                if ok:
                    hit = i
                    break
            if hit is None:
                return "%s element %s has no counterpart" % (kind, str(ea)[:300])
            rest.pop(hit)
    return None


def struct_ranges(data):
    """byte ranges (BGNSTR .. ENDSTR inclusive) per structure name, from my own record walk"""
    out = {}
    start = None
    name = None
    for pos, rtype, payload in gdsref.records(data):
        if rtype == gdsref.BGNSTR:
            start = pos
        elif rtype == gdsref.STRNAME:
            name = gdsref.d_str(payload)
        elif rtype == gdsref.ENDSTR:
            out[name] = data[start:pos + 4]
    return out


def check(ctx, case):
    path = ctx.path("orig.gds")
    lines = []
    ts0 = case["orig_timestamp"]
    if case["source"] == "gdstk":
        lib = case["lib"]
        lines, _ = lg.build_script(lib, "L", queries=False)
        lines.append("io write_gds L %s %d T %s" % (path, case["max_points"], " ".join(map(str, ts0))))
        outs = ctx.run(lines, case)
        if outs[-1]["err"] not in WARNINGS:
            raise Violation("write_gds returned error %d" % outs[-1]["err"], case, 0, outs[-1]["err"], lines)
    else:
        lay = dict(case["layout"])
        lay["bgnlib"] = ts0 * 2
        with open(path, "wb") as fh:
            fh.write(gdsref.encode(lay, case["choices"]))
    with open(path, "rb") as fh:
        data = fh.read()
    try:
        dec = gdsref.strict_decode(data, wide_numbers=True)
    except gdsref.FormatError as e:
        raise Violation("the strict decoder rejects the source file: %s" % e, case, None, None, lines)
    du, dm = float(dec["units"][0]), float(dec["units"][1])
    file_unit = dm / du
    tags = case["filter"]
    U = case["target_unit"]
    tsn = case["timestamp"]
    p_ts = ctx.path("ts.gds")
    with open(p_ts, "wb") as fh:
        fh.write(data)
    q = ["io read_gds F %s 0 0 N" % path, "dump lib F",                                 # 0 1   full native load (default tolerance)
         "io gds_info %s" % path,                                                       # 2
         "io gds_units %s" % path,                                                      # 3
         "io gds_timestamp %s" % path,                                                  # 4
         "io read_gds T %s 0 0 %d %s" % (path, len(tags), " ".join("%d %d" % tuple(t) for t in tags)), "dump lib T",   # 5 6
         "io read_gds U %s %s 0 N" % (path, fl(U)), "dump lib U",                       # 7 8
         "io gds_timestamp %s T %s" % (p_ts, " ".join(map(str, tsn))),                  # 9
         "io gds_timestamp %s" % p_ts,                                                  # 10
         "io read_rawcells R %s" % path]                                                # 11
    o = ctx.run(q, case)
    if o[0]["err"] not in WARNINGS:
        raise Violation("full read_gds returned error %d" % o[0]["err"], case, 0, o[0]["err"], q)
    full = o[1]["lib"]

    def fail(msg, exp=None, got=None):
        raise Violation(msg, case, exp, got, lines + q)
    # ---- gds_info
    info = o[2]
    names_dec = [s["name"] for s in dec["structs"]]
    names_info = [bytes.fromhex(n).decode("latin-1") for n in info["cell_names"]]
    names_full = [bytes.fromhex(c["name"]).decode("latin-1") for c in full["cells"]]
    if info["err"] not in WARNINGS:
        fail("gds_info returned error %d on a valid file" % info["err"])
    if names_info != names_dec or names_full != names_dec:
        fail("cell names: gds_info %s, full load %s, file order %s" % (names_info, names_full, names_dec), names_dec, names_info)
    npoly = sum(len(c["polygons"]) for c in full["cells"])
    npath = sum(len(c["flexpaths"]) + len(c["robustpaths"]) for c in full["cells"])
    nref = sum(len(c["refs"]) for c in full["cells"])
    nlab = sum(len(c["labels"]) for c in full["cells"])
    dpoly = sum(1 for s in dec["structs"] for e in s["elements"] if e["kind"] in ("boundary", "box"))
    dpath = sum(1 for s in dec["structs"] for e in s["elements"] if e["kind"] == "path")
    dref = sum(1 for s in dec["structs"] for e in s["elements"] if e["kind"] in ("sref", "aref"))
    dlab = sum(1 for s in dec["structs"] for e in s["elements"] if e["kind"] == "text")
    got = (info["num_polygons"], info["num_paths"], info["num_references"], info["num_labels"])
    if got != (npoly, npath, nref, nlab) or got != (dpoly, dpath, dref, dlab):
        fail("gds_info counts (polygons, paths, references, labels) %s; full load %s; records in the file %s" % (got, (npoly, npath, nref, nlab), (dpoly, dpath, dref, dlab)),
             (npoly, npath, nref, nlab), got)
    stags = {tuple(p["tag"]) for c in full["cells"] for p in c["polygons"]} | {tuple(e["tag"]) for c in full["cells"] for f in c["flexpaths"] for e in f["elements"]}
    ltags = {tuple(l["tag"]) for c in full["cells"] for l in c["labels"]}
    if {tuple(t) for t in info["shape_tags"]} != stags or {tuple(t) for t in info["label_tags"]} != ltags:
        fail("gds_info tags %s / %s, full load has %s / %s" % (sorted(map(tuple, info["shape_tags"])), sorted(map(tuple, info["label_tags"])), sorted(stags), sorted(ltags)))
    if info["unit"] != full["unit"] or info["precision"] != full["precision"]:
        fail("gds_info unit/precision %r/%r, full load %r/%r" % (info["unit"], info["precision"], full["unit"], full["precision"]))
    # ---- gds_units / timestamp
    if o[3]["err"] != 0 or o[3]["unit"] != full["unit"] or o[3]["precision"] != full["precision"]:
        fail("gds_units %r/%r (err %d), full load %r/%r" % (o[3]["unit"], o[3]["precision"], o[3]["err"], full["unit"], full["precision"]))
    if o[4]["err"] != 0 or o[4]["tm"] != dec["bgnlib"][:6]:
        fail("gds_timestamp read %s (err %d), BGNLIB holds %s" % (o[4]["tm"], o[4]["err"], dec["bgnlib"][:6]), dec["bgnlib"][:6], o[4]["tm"])
    # ---- tag filter
    filt = o[6]["lib"]
    tagset = {tuple(t) for t in tags}
    removed = kept = 0
    for cf, ct in zip(full["cells"], filt["cells"]):
        exp = dict(cf)
        exp["polygons"] = [p for p in cf["polygons"] if tuple(p["tag"]) in tagset]
        exp["flexpaths"] = [f for f in cf["flexpaths"] if tuple(f["elements"][0]["tag"]) in tagset]
        removed += len(cf["polygons"]) + len(cf["flexpaths"]) - len(exp["polygons"]) - len(exp["flexpaths"])
        kept += len(exp["polygons"]) + len(exp["flexpaths"])
        d = cells_equal(canon_cell(exp), canon_cell(ct), 0.0)
        if d:
            fail("load with tag filter %s differs from the full load with other tags discarded (cell %s): %s" % (sorted(tagset), bytes.fromhex(cf["name"]).decode("latin-1"), d))
    if len(full["cells"]) != len(filt["cells"]):
        fail("filtered load has %d cells, full load %d" % (len(filt["cells"]), len(full["cells"])))
    # ---- target unit
    ul = o[8]["lib"]
    if o[7]["err"] not in WARNINGS:
        fail("read_gds with target unit returned error %d" % o[7]["err"])
    if ul["unit"] != U or ul["precision"] != full["precision"]:
        fail("load with target unit %r reports unit/precision %r/%r (file precision %r)" % (U, ul["unit"], ul["precision"], full["precision"]))
    scale = full["unit"] / U
    for cf, cu in zip(full["cells"], ul["cells"]):
        d = cells_equal(canon_cell(cf, scale, drop_tol=False), canon_cell(cu, 1.0, drop_tol=False), 1e-12)
        if d:
            fail("load with target unit %r is not the native load rescaled by %r (cell %s): %s" % (U, scale, bytes.fromhex(cf["name"]).decode("latin-1"), d))
    # ---- timestamp rewrite
    if o[9]["err"] != 0 or o[9]["tm"] != dec["bgnlib"][:6]:
        fail("gds_timestamp(write) returned %s err %d; the previous library time is %s" % (o[9]["tm"], o[9]["err"], dec["bgnlib"][:6]))
    with open(p_ts, "rb") as fh:
        newdata = fh.read()
    if len(newdata) != len(data):
        fail("rewriting the timestamps changed the file length %d -> %d" % (len(data), len(newdata)))
    allowed = set()
    for pos, rtype, payload in gdsref.records(data):
        if rtype in (gdsref.BGNLIB, gdsref.BGNSTR):
            allowed |= set(range(pos + 4, pos + 28))
    for i, (a, b) in enumerate(zip(data, newdata)):
        if a != b and i not in allowed:
            fail("rewriting the timestamps changed byte %d, outside every BGNLIB/BGNSTR data field" % i)
    newdec = gdsref.strict_decode(newdata, wide_numbers=True)
    want = tsn * 2
    if newdec["bgnlib"] != want or any(s["bgnstr"] != want for s in newdec["structs"]):
        fail("after the rewrite BGNLIB/BGNSTR hold %s / %s, requested %s" % (newdec["bgnlib"], [s["bgnstr"] for s in newdec["structs"]][:3], want))
    if o[10]["tm"] != tsn:
        fail("gds_timestamp reads %s after writing %s" % (o[10]["tm"], tsn))
    # ---- raw cells
    raws = o[11]
    if raws["err"] not in WARNINGS:
        fail("read_rawcells returned error %d" % raws["err"])
    rnames = [bytes.fromhex(r["key"]).decode("latin-1") for r in raws["cells"]]
    if sorted(rnames) != sorted(names_dec):
        fail("read_rawcells found %s, the file holds %s" % (sorted(rnames), sorted(names_dec)))
    ranges = struct_ranges(data)
    for r in raws["cells"]:
        nm = bytes.fromhex(r["key"]).decode("latin-1")
        if r["cell"]["size"] != len(ranges[nm]):
            fail("raw cell %s has size %d, its structure occupies %d bytes" % (nm, r["cell"]["size"], len(ranges[nm])))
        deps = sorted({bytes.fromhex(d).decode("latin-1") for d in r["cell"]["deps"]})
        st_ = [s for s in dec["structs"] if s["name"] == nm][0]
        want_deps = sorted({e["sname"] for e in st_["elements"] if e["kind"] in ("sref", "aref") and e["sname"] in names_dec})
        if deps != want_deps:
            fail("raw cell %s lists dependencies %s, the structure references %s" % (nm, deps, want_deps))
    subset = sorted({i % len(rnames) for i in case["raw_subset"]}) if rnames else []
    nontrivial_raw = False
    if subset:
        # closure over dependencies (by name, from my decoder)
        order = sorted(rnames)
        chosen = set(order[i] for i in subset)
        changed = True
        while changed:
            changed = False
            for s in dec["structs"]:
                if s["name"] in chosen:
                    for e in s["elements"]:
                        if e["kind"] in ("sref", "aref") and e["sname"] in names_dec and e["sname"] not in chosen:
                            chosen.add(e["sname"])
                            changed = True
        handles = ["R.%d" % order.index(n) for n in sorted(chosen)]
        p1, p2 = ctx.path("raw1.gds"), ctx.path("raw2.gds")
        # the raw cells read their bytes lazily from the source file: write them twice from two independent loads
        q2 = ["io read_rawcells R %s" % path,
              "io gdswriter %s %s %s %s 0 %d %s" % (p1, hx("RAW"), fl(full["unit"]), fl(full["precision"]), len(handles), " ".join("raw " + h for h in handles)),
              "io read_rawcells S %s" % path,
              "lib new RL %s %s %s" % (hx("RAW"), fl(full["unit"]), fl(full["precision"]))] + \
             ["lib addraw RL S.%d" % order.index(n) for n in sorted(chosen)] + \
             ["io write_gds RL %s 0" % p2, "io read_gds N1 %s 0 0 N" % p1, "dump lib N1", "io read_gds N2 %s 0 0 N" % p2, "dump lib N2"]
        o2 = ctx.run(q2, case)
        werr = o2[1]["err"]
        if werr not in WARNINGS:
            fail("GdsWriter returned error %d" % werr)
        for label, dumped, pth in (("GdsWriter", o2[-3]["lib"], p1), ("Library::write_gds", o2[-1]["lib"], p2)):
            with open(pth, "rb") as fh:
                nd = fh.read()
            try:
                nr = struct_ranges(nd)
            except gdsref.FormatError as e:
                fail("file written through %s is not a well-formed stream: %s" % (label, e))
            for nm in chosen:
                if nr.get(nm) != ranges[nm]:
                    fail("raw cell %s written through %s is not byte-identical to its structure in the source file" % (nm, label))
            got_cells = {bytes.fromhex(c["name"]).decode("latin-1"): c for c in dumped["cells"]}
            if set(got_cells) != chosen:
                fail("file written through %s holds cells %s, expected %s" % (label, sorted(got_cells), sorted(chosen)))
            for cf in full["cells"]:
                nm = bytes.fromhex(cf["name"]).decode("latin-1")
                if nm in chosen:
                    d = cells_equal(canon_cell(cf), canon_cell(got_cells[nm]), 1e-15)
                    if d:
                        fail("cell %s re-loaded from the raw-cell copy (%s) differs from the original load: %s" % (nm, label, d))
        nontrivial_raw = len(chosen) >= 2
    kinds = set()
    for c in full["cells"]:
        for k in ("polygons", "flexpaths", "labels", "refs"):
            if c[k]:
                kinds.add(k)
    nt = len(full["cells"]) >= 2 and len(kinds) >= 3 and removed > 0 and kept > 0 and abs(U - file_unit) > 1e-20
    ctx.stats.note(case, nt, ["source_" + case["source"], "filter_removed" if removed else "filter_removed_nothing", "filter_kept" if kept else "filter_kept_nothing",
                              "raw_subset_%d" % len(subset), "raw_with_dependencies" if nontrivial_raw else "raw_simple"] + ["has_" + k for k in sorted(kinds)])


def run_worker(ctx):
    n = 1200 if ctx.tier == "quick" else 20000
    v = ctx.hypothesis(check, case_strategy(), ctx.share(n), "readers")
    return [v] if v else []


def replay(ctx, test, case, ignore_known=False):
    return check(ctx, case)
