#!/bin/sh
# Runs the repository's own pinned suite (18 ctest example programs) on a source tree (default /repo), guard off.
SRC=${1:-/repo}
set -e
cmake -G Ninja -B "$SRC/_build" -S "$SRC" -DCMAKE_BUILD_TYPE=RelWithDebInfo -DCMAKE_CXX_FLAGS=-Wno-error >/dev/null
cmake --build "$SRC/_build" --target all examples >/dev/null
ctest --test-dir "$SRC/_build" -j8 --timeout 900 2>&1 | tail -4
