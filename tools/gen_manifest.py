#!/usr/bin/env python3
"""Regenerates /verif/MANIFEST.json from the table below (keeps it valid at all times)."""
import json
import os

VERIF = os.path.dirname(os.path.dirname(os.path.abspath(__file__)))

CHECKS = {
    "C01": dict(level="exploration", design="4 C01",
                text="Generated libraries inside the stated domain are saved with write_gds, reloaded (1-3 cycles) and compared "
                     "with a Python model of the expected reloaded library: multiset matching per cell and element kind, "
                     "every coordinate on the grid and within half a grid unit of the original, repetitions/non-simple paths/"
                     "over-limit polygons re-loaded as plain elements covering the same region (exact winding samples), later "
                     "cycles idempotent. Sampled exploration with shrinking.",
                note="Trusted: pbt/gdsmodel.py, pbt/geomkit.py. Centre lines/outlines of paths are taken from gdstk (transport "
                     "only; C07/C08 judge them). Arrays with off-grid lattices are compared with the AREF corner-rounding bound (at most 1.5 grid units at the far corner).",
                technique="property-based testing (Hypothesis) of a save/load round trip against a reference model"),
    "C02": dict(level="exploration", design="4 C02",
                text="Generated libraries in the OASIS domain (32-bit tags, detector-relevant shapes, circles at the detection "
                     "tolerance, simple/outlined paths, labels, every repetition kind, typed user properties, references incl. to a "
                     "cell outside the library) x all 256 flag bytes x deflate level 0-9 x circle tolerance, written, re-loaded and "
                     "compared with a Python model of the expected library after expanding both sides to placements; signature "
                     "validated against zlib.crc32 / byte sum; cycles 2-3 reproduce cycle 1.",
                note="Trusted: pbt/oasmodel.py, pbt/repgen.py. Path centre lines/outlines are taken from gdstk (C07/C08 judge them). "
                     "Writer-generated S_* standard properties are not compared (C04).",
                technique="property-based testing (Hypothesis): write/read round trip against an expected-library model, options drawn over the full flag space"),
    "C03": dict(level="exploration", design="4 C03",
                text="Differential against an independent, specification-derived GDSII codec (pbt/gdsref.py): (A) generated "
                     "abstract layouts are serialised with drawn encoder choice points and loaded by read_gds with a drawn target "
                     "unit, the dump must equal the denoted layout; (B) files written by write_gds must be accepted by the strict "
                     "decoder and decode to the expected library of C01; the codec is self-checked (decode(encode(x)) == x) on "
                     "every case.",
                note="Trusted: my reading of the GDSII stream format (DESIGN Appendix A.1), pbt/gdsref.py, pbt/gdsmodel.py. "
                     "Unsupported optional records may be reported as warnings; AREF lattices are generated aligned with the "
                     "rotated/reflected axes as the format prescribes.",
                technique="differential property-based testing (Hypothesis) against an independent format codec with encoder choice points"),
    "C04": dict(level="exploration", design="4 C04",
                text="Direction A: abstract OASIS layouts serialised by an independent specification-derived encoder under ~100 drawn "
                     "choice points (modal reuse, relative mode, point-list/repetition/real forms, name tables, CBLOCKs, padding, "
                     "validation schemes) are loaded by gdstk and compared with the placements they denote. Direction B: C02's "
                     "libraries and option sets written by gdstk are decoded by my strict decoder and compared with C02's "
                     "expected library; END length, validation signature, table offsets and every standard property are "
                     "recomputed from the bytes / the model. Codec self-check in every case.",
                note="Trusted: pbt/oasref.py + pbt/oasnum.py (format facts: DESIGN Appendix A.2). Properties on name records other than "
                     "CELLNAME are not generated; S_BOUNDING_BOX is compared with gdstk's own bounding_box (C09).",
                technique="differential property-based testing (Hypothesis) against an independent specification-derived OASIS codec, both directions"),
    "C05": dict(level="exploration", design="4 C05",
                text="Generated pairs of polygon groups (simple polygons of six families, snapped to force coincidences, sizes "
                     "64..2^45 grid units, optional feedback of earlier outputs) through all four operations; oracle = exact "
                     "integer winding-number membership at deliberately placed sample points outside a 2-grid-unit guard "
                     "band, no overlap / |winding| <= 1 / consistent orientation of every output polygon, and the area "
                     "identities. Sampled exploration with shrinking; one known finding (C05-K1) is classified by an "
                     "independent direct call into Clipper and reported, not judged.",
                note="Trusted: pbt/geomkit.py exact integer predicates. Errors below the 2-unit band are invisible (the "
                     "statement excludes the rounding grid). Scaled coordinates stay below 2^50.",
                technique="property-based testing (Hypothesis) with an exact point-membership oracle and metamorphic area identities"),
    "C06": dict(level="exploration", design="4 C06",
                text="Generated hierarchies (all element and repetition kinds, transformed references, deep chains) followed by a "
                     "generated history of hierarchy queries (apply_repetitions x include_paths x depth x filter), flatten and "
                     "deep copies; every result - with attached repetitions expanded by the model - is compared as a multiset "
                     "with a hand flattening in Python (2x3 matrix products): polygons vertex by vertex, labels by placement "
                     "matrix, flexpaths structurally, robust paths by evaluation, path outlines against paths re-constructed "
                     "from pre-transformed arguments.",
                note="Trusted: pbt/flatmodel.py. Positive magnifications only; sub-tolerance (degenerate) magnified paths are not "
                     "generated; robust-path outlines are judged only where outline-then-transform is an identity.",
                technique="model-based property testing (Hypothesis) of query/flatten histories against an affine-composition oracle"),
    "C07": dict(level="exploration", design="4 C07",
                text="Generated FlexPaths (polylines with turns up to 150 degrees, 1-3 elements, constant/tapering widths and offsets, "
                     "all join/end/bend types with clearly fitting or clearly non-fitting radii; tangent-continuous segment/turn "
                     "paths; arbitrary histories over all 13 construction calls): per-call width/offset bookkeeping, spine = "
                     "Curve built by the same calls, outline polygons probed at decidable inside/outside samples of a centre-line "
                     "region model rebuilt from the call history (exact join geometry on the outer bisector of every joint), and "
                     "simple paths re-loaded from GDSII/OASIS PATH records probed with the same model (outlines instead where an OASIS "
                     "PATH record cannot hold the end type); simple paths of 8189..20000 points compared vertex by vertex after reload.",
                note="Trusted: pbt/pathmodel.py. Undecidable samples (within band = 3 x tolerance of the boundary, ambiguous bend fits, "
                     "ill-conditioned displaced-line joints) are not used.",
                technique="property-based testing (Hypothesis) with an independent swept-region membership oracle and a write/read differential"),
    "C08": dict(level="exploration", design="4 C08",
                text="Generated RobustPath histories: (A) position/gradient/width/offset queries at drawn parameters (every integer "
                     "with both from_below values) against my own analytic sections and interpolations, and the commands() "
                     "spelling against the calls; (B) outlines of well-conditioned paths probed at decidable inside/outside "
                     "samples of the densified centre curve C(u) = S(u) + o(u) N(u) with half-width w(u)/2, no-gap samples at "
                     "corner joints, termination under the watchdog; (C) simple paths re-loaded from GDSII/OASIS PATH records: "
                     "centre line within grid + 2 x tolerance of C(u), width = w(0).",
                note="Trusted: pbt/rpmodel.py, pbt/pathmodel.py. Elliptical arc angles are parameter angles (robustpath.hpp). Samples "
                     "inside the exclusion radius of a corner or centre-line kink (miter region) are not used; ill-conditioned "
                     "centre lines (curvature radius < 2 x reach) are not judged for region.",
                technique="property-based testing (Hypothesis) against an analytic section model, a swept-region membership oracle and a write/read differential"),
    "C09": dict(level="exploration", design="4 C09",
                text="Generated hierarchies incl. degenerate contents (collinear, single point, empty) and explicit repetitions under "
                     "oblique rotations; Cell/Reference/Polygon/Label bounding boxes and convex hulls, uncached and with a shared "
                     "cache in drawn call orders, are compared with the exact min/max and with hull validity predicates "
                     "(contains every geometry point, every corner is a geometry point, convex) over geometry flattened by hand.",
                note="Trusted: pbt/flatmodel.py; path outlines are taken from get_polygons (so the box of a scale_width=false path "
                     "under a magnified reference is judged against the magnified outline, see known finding C06-K1).",
                technique="property-based testing (Hypothesis) against an independent min/max and hull-validity oracle over hand-flattened geometry"),
    "C10": dict(level="exploration", design="4 C10",
                text="One generated element of every kind under a generated sequence of 1-5 transforms (translate, scale of either "
                     "sign, per-axis scale, mirror, rotate, transform) compared with 2x3 matrix arithmetic: polygon vertices, "
                     "label/reference placement matrices, repetition vectors, flexpath structure (spine, widths, offsets, "
                     "extensions, bend radius), robust-path evaluation, and path outlines where transform-then-outline is an "
                     "identity.",
                note="Trusted: pbt/flatmodel.py. X::transform is not required to move X.repetition. Bend radii are generated where "
                     "'fits' is unambiguous.",
                technique="property-based testing (Hypothesis) of transform sequences against affine-matrix arithmetic (algebraic/metamorphic oracle)"),
    "C11": dict(level="exploration", design="4 C11",
                text="Generated repetitions of every kind (zero counts, negative/duplicate/zero vectors, explicit lists to "
                     "length 30) on every element kind are compared with my own enumeration: count, offsets, extrema, "
                     "apply_repetition (deep, one copy per non-zero-index vector, original cleared) and "
                     "Repetition::transform. Sampled exploration with shrinking.",
                note="Trusted: the 20-line reference enumeration in pbt/repgen.py. Zero counts denote the empty set, an empty "
                     "explicit list denotes {0} (DESIGN 4 C11).",
                technique="property-based testing (Hypothesis) against a reference enumeration"),
    "C12": dict(level="exploration", design="4 C12",
                text="Generated simple polygons (combs up to 10^4 vertices, spirals, stars, slivers, collinear/repeated "
                     "vertices) x vertex limits x precisions through Polygon::fracture, and x sorted cut lists through "
                     "slice(): vertex bound, tag/repetition/independent properties on every piece, exact-winding sample "
                     "oracle (covered by exactly one piece iff inside; bin i = polygon in strip i), area sum, termination "
                     "(watchdog). Writer clause: a polygon, a non-simple flexible path and a non-simple robust path saved with "
                     "write_gds(max_points) and re-loaded: every polygon in the file has at most that many vertices and the "
                     "polygons partition each element's outline (same sample oracle).",
                note="Trusted: geomkit exact predicates; 2-grid-unit guard band; large polygons use a deterministic subset of "
                     "sample candidates.",
                technique="property-based testing (Hypothesis) with an exact point-membership partition oracle"),
    "C13": dict(level="exploration", design="4 C13",
                text="Generated polygon groups and polyomino regions (three decompositions each) x distances of either sign x "
                     "join styles x tolerances x scalings x union settings through offset(); oracle = my own signed distance "
                     "(exact winding + point-segment distance, exact region boundary for polyominoes) with a 2-grid-unit band "
                     "and the join-dependent reach; metamorphic: the decompositions of one region classify every decidable "
                     "sample identically under use_union.",
                note="Trusted: geomkit. Domain conditions (DESIGN 4 C13 and 0.2): |d| >= 2 rounding-grid units; miter limit >= 2; polygons without sub-grid spikes; "
                     "use_union=false with d<0 only for polygons farther apart than 2|d|; round joins judged with Clipper's "
                     "rounded arc step count (apothem of a 1.5-step chord).",
                technique="property-based testing (Hypothesis) with a signed-distance oracle and a metamorphic decomposition relation"),
    "C14": dict(level="exploration", design="4 C14",
                text="Exhaustive small-grid enumeration (every vertex list up to length 4/5 on a 4x4 grid x 121 query "
                     "points) plus Hypothesis-generated polygons/point sets against an exact integer winding-number "
                     "oracle; measures against exact shoelace / fsum. Exhaustive on the small domain, sampled beyond it.",
                note="Trusted: my exact integer oracle (two independent copies, C++ and Python). Coordinates are "
                     "restricted to dyadic values for which all of gdstk's products are exact.",
                technique="exhaustive enumeration + property-based testing (Hypothesis) vs exact winding-number oracle"),
    "C15": dict(level="exploration", design="4 C15",
                text="Generated curve histories (every section kind, relative/absolute, cusps and coincident controls, arcs of any "
                     "sign/span/eccentricity/rotation, tolerances from 2x the feature size to 1e-6x) judged section by section "
                     "against my own record of the history: start/end points, every vertex finite and on the analytic curve in "
                     "order, one-sided Hausdorff deviation <= 2 x tolerance where the property bounds it, commands() spelling "
                     "vertex-identical to the calls; primitives against exact vertex formulas / the same deviation bound.",
                note="Trusted: numpy/scipy evaluation of Bezier, ellipse and menu curves in pbt/prop_c15.py. K = 2 (2.5 for fillets, "
                     "which have no 4-point minimum). Interpolation is judged for passing through its points only.",
                technique="property-based testing (Hypothesis) against an analytic curve model (validity predicate + deviation bound)"),
    "C16": dict(level="exploration", design="4 C16",
                text="Model-based histories of library edits (add/remove, three reference kinds, rename by name/pointer, four "
                     "replace overloads, chained tag remaps, deep/shallow copies followed by edits of the copy); after every "
                     "step the complete observable graph (cell/raw-cell arrays, every reference's kind+target identity+name, "
                     "element tags, top_level, dependencies, tag sets, get_cell) is compared with an abstract graph model.",
                note="Trusted: the Python graph model in pbt/prop_c16.py. Names are kept unique among live objects; dependency "
                     "queries are defined over by-pointer references (documented limitation of by-name references).",
                technique="model-based property testing of operation histories (Hypothesis) against an abstract graph model"),
    "C17": dict(level="exploration", design="4 C17",
                text="Differential with the full load as reference over generated files from two sources (gdstk-written and "
                     "independently encoded): gds_info, gds_units, gds_timestamp (read and write), tag-filtered load, "
                     "target-unit load, raw cells re-emitted through GdsWriter and Library::write_gds (byte-identical "
                     "structures, identical re-load).",
                note="Trusted: pbt/gdsref.py for record boundaries, BGNLIB/BGNSTR contents and counts; the full loader is the "
                     "reference by definition of the property. Empty filter sets are not generated.",
                technique="differential property-based testing (Hypothesis): five partial readers vs the full reader"),
    "C18": dict(level="fault_enumeration", design="6",
                text="Every prefix length of every generated file (gdstk-written GDSII, independently encoded GDSII, gdstk-written "
                     "OASIS under drawn options) is fed to every reader in scope inside a forked, sanitised child with a "
                     "watchdog and a descriptor count; outcomes are judged by the table of DESIGN 6.2; repeated-call clause on "
                     "selected prefixes; readers with an optional error_code are also run with NULL. Exhaustive per file, sampled over files.",
                note="The full OASIS loader is outside the claim (DESIGN 6.3). Leaks of memory are not judged, descriptors are. "
                     "Files are small (0.3-5 kB) so that every byte position is cut.",
                technique="fault injection: exhaustive truncation-point enumeration over generated files with a per-reader outcome oracle"),
    "C19": dict(level="exploration", design="4 C19",
                text="Systematic boundary values (every power of 16 / every 7-bit group boundary / every direction) plus "
                     "Hypothesis-generated values and point lists through gdstk's encoders and decoders, judged by "
                     "arbitrary-precision reference codecs in both directions (gdstk bytes decoded by the reference; "
                     "every alternative legal reference encoding decoded by gdstk; >64-bit encodings must set Overflow). "
                     "Every case runs on a clang build and on a g++ build of the same sources. Last stage of both tiers: "
                     "16 coverage-guided libFuzzer campaigns (driver/fuzz_oasis_numbers.cpp, src/oasis.cpp compiled into the "
                     "target) over the byte-level space of OASIS integers, deltas and reals in both directions, judged inside "
                     "the target by a second reference codec over unsigned __int128.",
                note="Trusted: pbt/oasnum.py (from DESIGN Appendix A.2), the 6-line GDSII real decoder and the ~100-line reference "
                     "codec inside the fuzz target. Non-minimal integer encodings are limited to 10 bytes; non-finite doubles are "
                     "outside the property's domain and are not judged.",
                technique="systematic boundary enumeration + property-based testing (Hypothesis) vs big-integer/Fraction reference "
                          "codecs + coverage-guided fuzzing (libFuzzer, ASan/UBSan) with an in-target reference-codec oracle"),
    "C20": dict(level="exploration", design="4 C20",
                text="Model-based histories: generated operation sequences over Map/Set/TagMap/StyleMap with keys crafted to "
                     "collide and wrap around the table end, through every growth step to capacity 2048; property-list "
                     "histories vs an ordered multimap; sort/intro_sort/heap_sort/insertion_sort vs the ordered-permutation "
                     "oracle; Array primitives vs a list model. Explores sampled histories, finds shallow and cluster-"
                     "dependent defects, cannot prove absence.",
                note="Trusted: Python dict/set/list models and my FNV-1a reimplementation (only used to aim keys). "
                     "memcpy(NULL,NULL,0) UBSan reports are informational, other UB kinds fail the case.",
                technique="model-based property testing of operation histories (Hypothesis) against dict/set/multimap models"),
}

NOT_YET = {}

ALL = ["C%02d" % i for i in range(1, 21)]


def main():
    checks = []
    for pid in ALL:
        if pid not in CHECKS:
            continue
        c = CHECKS[pid]
        checks.append({
            "property_id": pid,
            "quick_cmd": "./check %s --tier quick" % pid,
            "thorough_cmd": "./check %s --tier thorough" % pid,
            "evidence_file": "/verif/evidence/%s.json" % pid,
            "replay_cmd_template": "./check %s --replay {path}" % pid,
            "engine": "hypothesis+gdstk_driver" + ("+libfuzzer" if pid == "C19" else ""),
            "level_claimed": {"category": c["level"], "text": c["text"], "design_ref": "DESIGN.md " + c["design"]},
            "level_note": c["note"],
            "technique": c["technique"],
        })
    na = [{"property_id": p, "reason": NOT_YET.get(p, "check not built yet in this round (work in progress; the design in DESIGN.md section 4 applies)")}
          for p in ALL if p not in CHECKS]
    m = {
        "version": 1,
        "setup_cmd": "python3 driver/build.py --target all",
        "hooks": {
            "guard": "GDSTK_VERIF",
            "enable": "no hooks are needed: the driver is compiled with -DGDSTK_VERIF against the unmodified public headers of /repo",
            "baseline_off_cmd": "cmake -G Ninja -B /repo/_build -S /repo && cmake --build /repo/_build && ctest --test-dir /repo/_build -j8 --timeout 900",
            "source_commits": [],
            "add_only": True,
        },
        "engines": [
            {"name": "hypothesis+gdstk_driver", "path": "/verif/pbt", "serves_properties": [c["property_id"] for c in checks],
             "kind_free_text": "Hypothesis (python3-vt) generates abstract cases, a sanitised C++ driver built from /repo's working tree executes them through gdstk's public API, Python reference models are the oracles"},
            {"name": "libfuzzer", "path": "/verif/driver/fuzz_oasis_numbers.cpp", "serves_properties": ["C19"],
             "kind_free_text": "libFuzzer target (clang -fsanitize=fuzzer,address,undefined) with src/oasis.cpp compiled into it; started by pbt/prop_c19.py as the last stage of C19, one campaign per worker; crash artifacts are minimised and stored as replay cases"},
        ],
        "checks": checks,
        "not_applicable": na,
        "notes": "All checks rebuild the ASan/UBSan driver from /repo's current working tree (content-hash cache in /verif/build). VERIF_SEED and VERIF_TIER are honoured.",
    }
    with open(os.path.join(VERIF, "MANIFEST.json"), "w") as fh:
        json.dump(m, fh, indent=1)
    print("MANIFEST.json: %d checks, %d not_applicable" % (len(checks), len(na)))


if __name__ == "__main__":
    main()
