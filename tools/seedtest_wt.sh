#!/bin/sh
# tools/seedtest_wt.sh <property-id> <patch.diff> [tier] : like seedtest.sh but applies the seeded change to a scratch
# worktree of /repo HEAD (VERIF_REPO) instead of /repo itself, so that other runs using /repo are not disturbed.
ID=$1; PATCH=$2; TIER=${3:-quick}
WT=/tmp/seedwt_$ID
cd /verif
rm -rf $WT; git -C /repo worktree prune
git -C /repo worktree add -q --detach $WT HEAD || exit 3
git -C $WT apply "$PATCH" || { echo "patch does not apply"; git -C /repo worktree remove --force $WT; exit 3; }
cp evidence/$ID.json /tmp/ev_$ID.bak 2>/dev/null
mkdir -p replays/$ID; ls replays/$ID > /tmp/seedtest_before_$ID.txt
VERIF_REPO=$WT ./check $ID --tier $TIER > /tmp/seedtest_$ID.log 2>&1; RC=$?
git -C /repo worktree remove --force $WT
rm -rf /tmp/seedtest_catches_$ID; mkdir -p /tmp/seedtest_catches_$ID
for f in $(ls replays/$ID); do grep -qx "$f" /tmp/seedtest_before_$ID.txt || mv replays/$ID/$f /tmp/seedtest_catches_$ID/; done
grep -E "VIOLATION|INTERNAL|tier=" /tmp/seedtest_$ID.log | head -5
cp /tmp/ev_$ID.bak evidence/$ID.json 2>/dev/null
echo "exit=$RC"
