#!/bin/sh
# tools/sweep.sh "<ids>" "<seeds>" [tier] : run checks over several VERIF_SEED values, print one line per run
IDS=${1:-"C01 C03 C05 C11 C12 C13 C14 C19 C20"}; SEEDS=${2:-"1 2 3 4 5"}; TIER=${3:-quick}
cd "$(dirname "$0")/.."
for id in $IDS; do for s in $SEEDS; do
  out=$(VERIF_SEED=$s ./check $id --tier $TIER 2>&1 | grep -E "tier=|VIOLATION|INTERNAL" | tr '\n' ' ' | cut -c1-400)
  echo "$id seed=$s rc=$? $out"
done; done
