#!/bin/sh
# tools/seed_rerun.sh [name ...] : re-run the current quick tier against stored seeded changes (default: all), each in
# a scratch worktree (tools/seedtest_wt.sh); prints one line per seed: "<name> caught" / "<name> MISSED".
cd /verif
[ $# -gt 0 ] || set -- $(ls seeded)
for n in "$@"; do
  id=${n%%_*}
  out=$(tools/seedtest_wt.sh $id /verif/seeded/$n/patch.diff quick 2>&1)
  if echo "$out" | grep -q "exit=1" && echo "$out" | grep -q "VIOLATION property=$id"; then echo "$n caught"; else echo "$n MISSED: $(echo "$out" | tr '\n' ' ' | cut -c1-300)"; fi
done
