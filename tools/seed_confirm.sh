#!/bin/sh
# tools/seed_confirm.sh <name e.g. C14_1> : independently confirm a sub-agent's seeded change in a fresh scratch worktree
# (demo passes on the clean tree; with the patch the library builds, the 18 ctest tests pass and the demo fails),
# then store it under /verif/seeded/<name>/ .
NAME=$1
OUT=/tmp/seed/$NAME.out
WT=/tmp/confirm_$NAME
DEST=/verif/seeded/$NAME
[ -f $OUT/patch.diff ] || { echo "no patch"; exit 2; }
git -C /repo worktree add --detach $WT HEAD -q || exit 2
cd $WT
R_CLEAN=x; R_TESTS=x; R_DEMO=x
( cd $OUT && sh ./run_demo.sh $WT ) > /tmp/confirm_$NAME.clean.log 2>&1; R_CLEAN=$?
if git apply $OUT/patch.diff; then
  cmake -G Ninja -B _build -S . -DCMAKE_BUILD_TYPE=RelWithDebInfo -DCMAKE_CXX_FLAGS=-Wno-error >/dev/null 2>&1
  cmake --build _build --target all examples >/dev/null 2>&1
  ctest --test-dir _build -j1 > /tmp/confirm_$NAME.ctest.log 2>&1; R_TESTS=$?
  ( cd $OUT && sh ./run_demo.sh $WT ) > /tmp/confirm_$NAME.patched.log 2>&1; R_DEMO=$?
else
  echo "patch does not apply to current HEAD"
fi
cd /
git -C /repo worktree remove --force $WT
echo "clean_demo_exit=$R_CLEAN patched_ctest_exit=$R_TESTS patched_demo_exit=$R_DEMO"
if [ "$R_CLEAN" = 0 ] && [ "$R_TESTS" = 0 ] && [ "$R_DEMO" != 0 ] && [ "$R_DEMO" != x ]; then
  mkdir -p $DEST
  cp $OUT/patch.diff $OUT/demo.cpp $OUT/run_demo.sh $DEST/
  python3 - "$NAME" "$R_CLEAN" "$R_TESTS" "$R_DEMO" <<'PY'
import json, sys
name, rc, rt, rd = sys.argv[1:5]
src = json.load(open('/tmp/seed/%s.out/meta.json' % name))
meta = {"property": src.get("property", name.split('_')[0]), "summary": src.get("summary"),
        "needs_to_manifest": src.get("needs_to_manifest"), "files": src.get("files"),
        "author": "independent sub-agent (saw only the property text and a scratch worktree)",
        "confirmed_by_me": {"how": "tools/seed_confirm.sh in a fresh scratch worktree of /repo HEAD",
                            "demo_exit_on_clean_tree": int(rc), "ctest_exit_with_patch": int(rt),
                            "demo_exit_with_patch": int(rd)},
        "detected_by": None}
json.dump(meta, open('/verif/seeded/%s/meta.json' % name, 'w'), indent=1)
PY
  echo "stored in $DEST"
else
  echo "NOT CONFIRMED"
fi
