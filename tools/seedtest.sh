#!/bin/sh
# tools/seedtest.sh <property-id> <patch.diff> [tier] : applies a seeded change to /repo, runs the check, reverts.
ID=$1; PATCH=$2; TIER=${3:-quick}
cd /verif
git -C /repo diff --quiet || { echo "/repo has uncommitted changes"; exit 3; }
git -C /repo apply "$PATCH" || { echo "patch does not apply"; exit 3; }
cp evidence/$ID.json /tmp/ev_$ID.bak 2>/dev/null
mkdir -p replays/$ID; ls replays/$ID > /tmp/seedtest_before_$ID.txt
./check $ID --tier $TIER > /tmp/seedtest_$ID.log 2>&1; RC=$?
git -C /repo checkout -- .
# replay files written by this run are moved to /tmp/seedtest_catches_$ID (the caller keeps what it wants)
rm -rf /tmp/seedtest_catches_$ID; mkdir -p /tmp/seedtest_catches_$ID
for f in $(ls replays/$ID); do grep -qx "$f" /tmp/seedtest_before_$ID.txt || mv replays/$ID/$f /tmp/seedtest_catches_$ID/; done
grep -E "VIOLATION|INTERNAL|tier=" /tmp/seedtest_$ID.log | head -5
cp /tmp/ev_$ID.bak evidence/$ID.json 2>/dev/null
echo "exit=$RC"
