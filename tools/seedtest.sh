#!/bin/sh
# tools/seedtest.sh <property-id> <patch.diff> [tier] : applies a seeded change to /repo, runs the check, reverts.
ID=$1; PATCH=$2; TIER=${3:-quick}
cd /verif
git -C /repo diff --quiet || { echo "/repo has uncommitted changes"; exit 3; }
git -C /repo apply "$PATCH" || { echo "patch does not apply"; exit 3; }
cp evidence/$ID.json /tmp/ev_$ID.bak 2>/dev/null
./check $ID --tier $TIER > /tmp/seedtest_$ID.log 2>&1; RC=$?
git -C /repo checkout -- .
# replay files written by this run are not kept here (moved by the caller if wanted)
grep -E "VIOLATION|INTERNAL|tier=" /tmp/seedtest_$ID.log | head -5
cp /tmp/ev_$ID.bak evidence/$ID.json 2>/dev/null
echo "exit=$RC"
