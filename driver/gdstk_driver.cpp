// gdstk verification driver: line protocol on stdin, JSON lines on stdout.
// Every command is one line of whitespace separated tokens.  `sync <n>` flushes the output
// buffer followed by {"sync":n}.  See /verif/DESIGN.md 2.1.
#include "core.hpp"

#include <dirent.h>
#include <sys/stat.h>
#include <sys/wait.h>
#include <time.h>

static FILE* g_devnull = NULL;
static unsigned g_watchdog = 20;

#include "menu.inc"
#include "cmd_build.inc"
#include "cmd_paths.inc"
#include "cmd_io.inc"
#include "cmd_geom.inc"
#include "cmd_hier.inc"
#include "cmd_num.inc"
#include "cmd_cont.inc"
#include "cmd_trunc.inc"

static void dispatch(Toks& t) {
    std::string c = t.s();
    if (c == "poly") return cmd_poly(t);
    if (c == "label") return cmd_label(t);
    if (c == "ref") return cmd_ref(t);
    if (c == "cell") return cmd_cell(t);
    if (c == "lib") return cmd_lib(t);
    if (c == "rep") return cmd_rep(t);
    if (c == "prop") return cmd_prop(t);
    if (c == "xf") return cmd_xf(t);
    if (c == "dump") return cmd_dump(t);
    if (c == "fp") return cmd_fp(t);
    if (c == "rp") return cmd_rp(t);
    if (c == "curve") return cmd_curve(t);
    if (c == "io") return cmd_io(t);
    if (c == "geom") return cmd_geom(t);
    if (c == "hier") return cmd_hier(t);
    if (c == "num") return cmd_num(t);
    if (c == "cont") return cmd_cont(t);
    if (c == "trunc") return cmd_trunc(t);
    if (c == "reset") {
        reset_tables();
        cont_reset();
        return;
    }
    if (c == "watchdog") {
        g_watchdog = (unsigned)t.u();
        return;
    }
    if (c == "fdcount") {
        o_fmt("{\"fds\":%d}\n", count_fds());
        return;
    }
    fprintf(stderr, "DRIVER: unknown command %s\n", c.c_str());
    abort();
}

int main(int argc, char** argv) {
    (void)argc;
    (void)argv;
    g_devnull = fopen("/dev/null", "w");
    set_error_logger(g_devnull);
    char* line = NULL;
    size_t cap = 0;
    ssize_t n;
    while ((n = getline(&line, &cap, stdin)) > 0) {
        Toks t;
        char* save = NULL;
        for (char* p = strtok_r(line, " \t\r\n", &save); p; p = strtok_r(NULL, " \t\r\n", &save)) t.t.push_back(p);
        if (t.t.empty()) continue;
        if (strcmp(t.t[0], "sync") == 0) {
            alarm(0);
            o_fmt("{\"sync\":%s}\n", t.t.size() > 1 ? t.t[1] : "0");
            flush_out();
            continue;
        }
        if (strcmp(t.t[0], "begin") == 0) {
            alarm(g_watchdog);
            continue;
        }
        dispatch(t);
    }
    flush_out();
    return 0;
}
