// fuzz_oasis_numbers: coverage-guided (libFuzzer) search over the byte-level space of OASIS number encodings (property C19).
//
// The unit under test, src/oasis.cpp, is compiled INTO this translation unit so that libFuzzer's coverage feedback comes from
// gdstk's own decoders and encoders (the static library is built without fuzzer instrumentation).
//
// input  = selector byte, then a payload
// oracle = reference codecs written here over unsigned __int128 (independent of gdstk's shift arithmetic):
//   decode direction : payload is an encoding; when the reference finds a complete encoding of at most 10 bytes per integer,
//                      gdstk must consume exactly those bytes and return the denoted value with NoError if it fits 64 (63) bits, and
//                      must report Overflow when it does not fit;
//   encode direction : payload is raw integers / a raw double; gdstk's writer output must be decoded by the reference to exactly the
//                      same value, using every byte, and gdstk's own reader must agree (round trip);
//   re-encode        : every value decoded in the decode direction is written again by gdstk and must denote the same value.
// Nothing may leak between iterations: every stream is created and released inside the iteration; error_logger is off.
#include <stdint.h>
#include <stdio.h>
#include <stdlib.h>
#include <string.h>
#include <math.h>

#include <oasis.cpp>  // -I<repo>/src

using namespace gdstk;
typedef unsigned __int128 u128;

static uint64_t n_exec, n_nontrivial, n_dec[8], n_overflow, n_reencode, n_skipped, n_nonfinite;
static char sample[5][96];
static int n_sample;

static void dump_stats() {
    const char* p = getenv("FUZZ_STATS");
    if (!p) return;
    FILE* f = fopen(p, "w");
    if (!f) return;
    fprintf(f, "{\"executions\": %llu, \"nontrivial\": %llu, \"overflow_cases\": %llu, \"reencoded\": %llu, \"skipped_incomplete\": %llu, \"nonfinite_not_judged\": %llu, \"by_selector\": [",
            (unsigned long long)n_exec, (unsigned long long)n_nontrivial, (unsigned long long)n_overflow, (unsigned long long)n_reencode,
            (unsigned long long)n_skipped, (unsigned long long)n_nonfinite);
    for (int i = 0; i < 8; i++) fprintf(f, "%s%llu", i ? ", " : "", (unsigned long long)n_dec[i]);
    fprintf(f, "], \"samples\": [");
    for (int i = 0; i < n_sample; i++) fprintf(f, "%s\"%s\"", i ? ", " : "", sample[i]);
    fprintf(f, "]}\n");
    fclose(f);
}

static void fail(const char* what, const uint8_t* data, size_t size) {
    fprintf(stderr, "ORACLE: %s; input=", what);
    for (size_t i = 0; i < size; i++) fprintf(stderr, "%02x", data[i]);
    fprintf(stderr, "\n");
    dump_stats();
    __builtin_trap();
}

// ---- reference side -------------------------------------------------------------------------------------------------------------
// Reads one OASIS variable-length integer: little-endian groups of 7 bits, bit 7 = continuation. Returns the number of bytes used,
// 0 when the encoding is incomplete or longer than 10 bytes (not asserted: gdstk reports padded long forms as overflow).
static size_t ref_varint(const uint8_t* p, size_t n, u128& v) {
    v = 0;
    for (size_t i = 0; i < n && i < 10; i++) {
        v += (u128)(p[i] % 128) * ((u128)1 << (7 * i));
        if (p[i] < 128) return i + 1;
    }
    return 0;
}

struct RefDelta {
    bool ok;        // complete
    bool overflow;  // a magnitude does not fit 63 bits
    size_t used;
    int64_t x, y;
};

static const int DX[8] = {1, 0, -1, 0, 1, -1, -1, 1};  // E N W S NE NW SW SE
static const int DY[8] = {0, 1, 0, -1, 1, 1, -1, -1};

// kind: 1 signed integer, 2 2-delta, 3 3-delta, 4 g-delta
static RefDelta ref_delta(int kind, const uint8_t* p, size_t n) {
    RefDelta r = {false, false, 0, 0, 0};
    const u128 LIM = (u128)1 << 63;
    u128 v;
    size_t k = ref_varint(p, n, v);
    if (!k) return r;
    if (kind == 1) {
        u128 m = v / 2;
        r.ok = true, r.used = k;
        if (m >= LIM) { r.overflow = true; return r; }
        r.x = (v % 2) ? -(int64_t)m : (int64_t)m;
        return r;
    }
    if (kind == 2 || kind == 3 || (kind == 4 && v % 2 == 0)) {
        unsigned dirbits = kind == 2 ? 2 : 3;
        u128 w = kind == 4 ? v / 2 : v;
        unsigned dir = (unsigned)(w % ((u128)1 << dirbits));
        u128 m = w >> dirbits;
        r.ok = true, r.used = k;
        if (m >= LIM) { r.overflow = true; return r; }
        r.x = DX[dir] * (int64_t)m;
        r.y = DY[dir] * (int64_t)m;
        return r;
    }
    // g-delta form 1: x = v >> 2 with sign bit 1 (west), then y as a signed integer
    u128 mx = v / 4;
    bool negx = (v / 2) % 2;
    u128 v2;
    size_t k2 = ref_varint(p + k, n - k, v2);
    if (!k2) return r;
    r.ok = true, r.used = k + k2;
    u128 my = v2 / 2;
    if (mx >= LIM || my >= LIM) { r.overflow = true; return r; }
    r.x = negx ? -(int64_t)mx : (int64_t)mx;
    r.y = (v2 % 2) ? -(int64_t)my : (int64_t)my;
    return r;
}

// real: returns bytes used (0 = incomplete / not asserted), value in out; exact=false when the denoted rational is not computed
// exactly by one IEEE operation on exactly representable operands (then only NoError and the byte count are asserted)
static size_t ref_real(const uint8_t* p, size_t n, double& out, bool& exact, bool& overflow) {
    exact = true, overflow = false;
    if (n < 1) return 0;
    uint8_t t = p[0];
    const u128 TWO53 = (u128)1 << 53, TWO64 = (u128)1 << 64;
    if (t <= 3) {
        u128 v;
        size_t k = ref_varint(p + 1, n - 1, v);
        if (!k) return 0;
        if (v >= TWO64) { overflow = true; return 1 + k; }
        double d = (double)(uint64_t)v;  // correctly rounded conversion
        if (t >= 2) {
            if (v == 0) return 0;  // zero denominator: not a number in the format
            if (v > TWO53) exact = false;
            d = 1.0 / d;
        }
        out = (t % 2) ? -d : d;
        return 1 + k;
    }
    if (t <= 5) {
        u128 a, b;
        size_t k = ref_varint(p + 1, n - 1, a);
        if (!k) return 0;
        size_t k2 = ref_varint(p + 1 + k, n - 1 - k, b);
        if (!k2) return 0;
        if (a >= TWO64 || b >= TWO64) { overflow = true; return 1 + k + k2; }
        if (b == 0) return 0;
        if (a > TWO53 || b > TWO53) exact = false;
        double d = (double)(uint64_t)a / (double)(uint64_t)b;
        out = t == 5 ? -d : d;
        return 1 + k + k2;
    }
    if (t == 6) {
        if (n < 5) return 0;
        uint32_t u = (uint32_t)p[1] + ((uint32_t)p[2] << 8) + ((uint32_t)p[3] << 16) + ((uint32_t)p[4] << 24);
        float f;
        memcpy(&f, &u, 4);
        out = (double)f;
        return 5;
    }
    if (t == 7) {
        if (n < 9) return 0;
        uint64_t u = 0;
        for (int i = 0; i < 8; i++) u += (uint64_t)p[1 + i] << (8 * i);
        memcpy(&out, &u, 8);
        return 9;
    }
    return 0;
}

static bool same_double(double a, double b) { return (isnan(a) && isnan(b)) || a == b; }

// ---- gdstk side -----------------------------------------------------------------------------------------------------------------
struct In {
    OasisStream s;
    uint8_t* base;
    In(const uint8_t* p, size_t n) {
        memset(&s, 0, sizeof s);
        base = (uint8_t*)allocate(n + 2);  // 2 bytes of padding: the memory stream is released when the cursor reaches its end
        memcpy(base, p, n);
        base[n] = base[n + 1] = 0;
        s.data = s.cursor = base;
        s.data_size = n + 2;
        s.error_code = ErrorCode::NoError;
    }
    size_t used() { return s.data ? (size_t)(s.cursor - base) : (size_t)-1; }
    ~In() {
        if (s.data) free_allocation(s.data);
    }
};

struct Out {
    OasisStream s;
    Out() {
        memset(&s, 0, sizeof s);
        s.data_size = 4;  // small on purpose: growth of the memory buffer is part of the writer
        s.data = s.cursor = (uint8_t*)allocate(s.data_size);
        s.error_code = ErrorCode::NoError;
    }
    size_t size() { return (size_t)(s.cursor - s.data); }
    ~Out() { free_allocation(s.data); }
};

static void check_write_delta(int kind, int64_t x, int64_t y, const uint8_t* data, size_t size) {
    Out o;
    switch (kind) {
        case 1: oasis_write_integer(o.s, x); break;
        case 2: oasis_write_2delta(o.s, x, y); break;
        case 3: oasis_write_3delta(o.s, x, y); break;
        default: oasis_write_gdelta(o.s, x, y);
    }
    RefDelta r = ref_delta(kind, o.s.data, o.size());
    if (!r.ok || r.overflow || r.used != o.size()) fail("writer produced an encoding the reference cannot decode completely", data, size);
    if (r.x != x || r.y != y) fail("writer output denotes a different delta", data, size);
    In in(o.s.data, o.size());
    int64_t gx = 0, gy = 0;
    switch (kind) {
        case 1: gx = oasis_read_integer(in.s); break;
        case 2: oasis_read_2delta(in.s, gx, gy); break;
        case 3: oasis_read_3delta(in.s, gx, gy); break;
        default: oasis_read_gdelta(in.s, gx, gy);
    }
    if (in.s.error_code != ErrorCode::NoError || gx != x || gy != y || in.used() != o.size())
        fail("write/read round trip of a delta changed it", data, size);
    n_reencode++;
}

static void check_write_uint(uint64_t v, const uint8_t* data, size_t size) {
    Out o;
    oasis_write_unsigned_integer(o.s, v);
    u128 rv;
    size_t k = ref_varint(o.s.data, o.size(), rv);
    if (k == 0 || k != o.size() || rv != (u128)v) fail("unsigned writer output denotes a different value", data, size);
    if (k > 1 && o.s.data[k - 1] == 0) fail("unsigned writer output has a padding group", data, size);
    In in(o.s.data, o.size());
    uint64_t g = oasis_read_unsigned_integer(in.s);
    if (in.s.error_code != ErrorCode::NoError || g != v || in.used() != k) fail("unsigned write/read round trip changed the value", data, size);
    n_reencode++;
}

static void check_write_real(double v, const uint8_t* data, size_t size) {
    // the property quantifies over finite doubles (a layout has no infinite or NaN coordinate): oasis_write_real(-inf) picks the
    // reciprocal form of 0, which is outside the claimed domain and is not judged
    if (!isfinite(v)) {
        n_nonfinite++;
        return;
    }
    Out o;
    oasis_write_real(o.s, v);
    double rv = 0;
    bool exact, overflow;
    size_t k = ref_real(o.s.data, o.size(), rv, exact, overflow);
    if (k == 0 || overflow || k != o.size()) fail("real writer produced an encoding the reference cannot decode completely", data, size);
    if (!exact) {
        // reciprocal of an integer above 2^53: the reference division is still the correctly rounded value of 1/(double)n,
        // and n itself is exactly representable only if the writer chose it from a double, which it did
    }
    if (!same_double(rv, v)) fail("real writer output denotes a different value (lossy)", data, size);
    In in(o.s.data, o.size());
    double g = oasis_read_real(in.s);
    if (in.s.error_code != ErrorCode::NoError || !same_double(g, v) || in.used() != k) fail("real write/read round trip changed the value", data, size);
    n_reencode++;
}

static int64_t clamp63(uint64_t u) {
    int64_t v = (int64_t)u;
    if (v == INT64_MIN) v = INT64_MIN + 1;  // the writers take magnitudes below 2^63
    return v;
}

extern "C" int LLVMFuzzerInitialize(int*, char***) {
    error_logger = NULL;
    atexit(dump_stats);
    return 0;
}

extern "C" int LLVMFuzzerTestOneInput(const uint8_t* data, size_t size) {
    error_logger = NULL;
    n_exec++;
    if (size < 2) return 0;
    unsigned sel = data[0] % 8;
    const uint8_t* p = data + 1;
    size_t n = size - 1;
    bool nontrivial = false;
    n_dec[sel]++;
    if (sel == 0) {  // unsigned integer, decode direction
        u128 v;
        size_t k = ref_varint(p, n, v);
        if (!k) { n_skipped++; return 0; }
        In in(p, n);
        uint64_t g = oasis_read_unsigned_integer(in.s);
        if (v >= ((u128)1 << 64)) {
            n_overflow++;
            if (in.s.error_code != ErrorCode::Overflow) fail("unsigned integer above 2^64-1 read without Overflow", data, size);
        } else {
            if (in.s.error_code != ErrorCode::NoError) fail("unsigned integer within range read with an error", data, size);
            if (g != (uint64_t)v) fail("unsigned integer decoded to a different value", data, size);
            if (in.used() != k) fail("unsigned integer reader consumed a different number of bytes", data, size);
            check_write_uint(g, data, size);
        }
        nontrivial = k >= 2;
    } else if (sel <= 4) {  // signed integer / 2-delta / 3-delta / g-delta, decode direction
        RefDelta r = ref_delta(sel, p, n);
        if (!r.ok) { n_skipped++; return 0; }
        In in(p, n);
        int64_t gx = 0, gy = 0;
        switch (sel) {
            case 1: gx = oasis_read_integer(in.s); break;
            case 2: oasis_read_2delta(in.s, gx, gy); break;
            case 3: oasis_read_3delta(in.s, gx, gy); break;
            default: oasis_read_gdelta(in.s, gx, gy);
        }
        if (r.overflow) {
            n_overflow++;
            if (in.s.error_code != ErrorCode::Overflow) fail("delta with a magnitude above 2^63-1 read without Overflow", data, size);
        } else {
            if (in.s.error_code != ErrorCode::NoError) fail("delta within range read with an error", data, size);
            if (gx != r.x || gy != r.y) fail("delta decoded to a different value", data, size);
            if (in.used() != r.used) fail("delta reader consumed a different number of bytes", data, size);
            check_write_delta(sel, gx, gy, data, size);
        }
        nontrivial = r.used >= 2;
    } else if (sel == 5) {  // real, decode direction
        double want = 0;
        bool exact, overflow;
        size_t k = ref_real(p, n, want, exact, overflow);
        if (!k) { n_skipped++; return 0; }
        In in(p, n);
        double g = oasis_read_real(in.s);
        if (overflow) {
            n_overflow++;
            if (in.s.error_code != ErrorCode::Overflow) fail("real with an integer above 2^64-1 read without Overflow", data, size);
        } else {
            if (in.s.error_code != ErrorCode::NoError) fail("well-formed real read with an error", data, size);
            if (in.used() != k) fail("real reader consumed a different number of bytes", data, size);
            if (exact && !same_double(g, want)) fail("real decoded to a different value", data, size);
            check_write_real(g, data, size);
        }
        nontrivial = p[0] != 7;
    } else if (sel == 6) {  // real, encode direction: 8 raw bytes are the double
        if (n < 8) { n_skipped++; return 0; }
        double v;
        memcpy(&v, p, 8);
        check_write_real(v, data, size);
        // and its neighbours among the values the compact forms exist for
        if (isfinite(v) && v != 0) {
            double t = trunc(v);
            if (fabs(t) < 1.8e19) check_write_real(t, data, size);
            double inv = 1.0 / v;
            if (isfinite(inv) && fabs(inv) < 1.8e19 && trunc(inv) != 0) {
                double c = 1.0 / trunc(inv);
                check_write_real(c, data, size);
                check_write_real(nextafter(c, 0), data, size);
                check_write_real(nextafter(c, 2 * c), data, size);
            }
        }
        nontrivial = true;
    } else {  // integers, encode direction: 16 raw bytes are x and y
        if (n < 16) { n_skipped++; return 0; }
        uint64_t ux, uy;
        memcpy(&ux, p, 8);
        memcpy(&uy, p + 8, 8);
        unsigned shx = n > 16 ? p[16] % 64 : 0, shy = n > 17 ? p[17] % 64 : 0;  // magnitudes of every length
        int64_t x = clamp63(ux) >> shx, y = clamp63(uy) >> shy;
        check_write_uint(ux >> shx, data, size);
        check_write_delta(1, x, 0, data, size);
        check_write_delta(2, x, 0, data, size);
        check_write_delta(2, 0, y, data, size);
        check_write_delta(3, x, x, data, size);
        check_write_delta(3, x, -x, data, size);
        check_write_delta(3, 0, y, data, size);
        check_write_delta(4, x, y, data, size);
        check_write_delta(4, x, 0, data, size);
        check_write_delta(4, y, y, data, size);
        check_write_delta(4, y, -y, data, size);
        nontrivial = true;
    }
    if (nontrivial) {
        n_nontrivial++;
        if (n_sample < 5 && (n_nontrivial % 997) == 1) {
            char* s = sample[n_sample++];
            for (size_t i = 0; i < size && i < 40; i++) sprintf(s + 2 * i, "%02x", data[i]);
        }
    }
    return 0;
}
