#!/usr/bin/env python3
"""Build the sanitised gdstk objects + driver from the *current working tree* of the repo.

Usage: build.py [--repo /repo] [--target gdstk_driver|gdstk_driver_gcc|all]
Prints the build directory (/verif/build/<treehash>) on the last line of stdout.

The cache key is a content hash of <repo>/src, <repo>/include, <repo>/external/clipper and of
/verif/driver/*.cpp|*.hpp|*.inc, so an edited tree is always rebuilt and an unchanged one never is.
"""
import hashlib
import os
import shutil
import subprocess
import sys
import fcntl
from concurrent.futures import ThreadPoolExecutor

VERIF = os.path.dirname(os.path.dirname(os.path.abspath(__file__)))
CXX = "clang++"
COMMON = ["-std=gnu++17", "-O1", "-g", "-DNDEBUG", "-DGDSTK_VERIF",
          "-fsanitize=address,undefined", "-fno-sanitize=alignment,vptr",
          "-fsanitize-recover=undefined", "-fno-omit-frame-pointer", "-w"]
INC = ["-I{repo}/include", "-I{repo}/external", "-I{repo}/external/clipper", "-I/usr/include/libqhull_r"]
LIBS = ["-lz", "-lqhull_r"]


def tree_files(repo):
    out = []
    for sub in ("src", "include", "external/clipper"):
        base = os.path.join(repo, sub)
        for root, _dirs, files in os.walk(base):
            for f in sorted(files):
                if f.endswith((".cpp", ".hpp", ".h", ".c")):
                    out.append(os.path.join(root, f))
    return sorted(out)


def driver_files():
    d = os.path.join(VERIF, "driver")
    return sorted(os.path.join(d, f) for f in os.listdir(d) if f.endswith((".cpp", ".hpp", ".inc")))


def tree_hash(repo):
    h = hashlib.sha1()
    for p in tree_files(repo):
        h.update(os.path.relpath(p, repo).encode())
        with open(p, "rb") as fh:
            h.update(hashlib.sha1(fh.read()).digest())
    return h.hexdigest()[:16]


def driver_hash():
    h = hashlib.sha1()
    for p in driver_files():
        h.update(os.path.basename(p).encode())
        with open(p, "rb") as fh:
            h.update(hashlib.sha1(fh.read()).digest())
    h.update(" ".join(COMMON).encode())
    return h.hexdigest()[:12]


def run(cmd):
    r = subprocess.run(cmd, stdout=subprocess.PIPE, stderr=subprocess.STDOUT, text=True)
    if r.returncode != 0:
        sys.stderr.write("BUILD FAILED: %s\n%s\n" % (" ".join(cmd), r.stdout))
        raise SystemExit(2)


def build(repo, targets):
    th = tree_hash(repo)
    root = os.path.join(VERIF, "build")
    os.makedirs(root, exist_ok=True)
    bdir = os.path.join(root, th)
    lock = open(os.path.join(root, ".lock"), "w")
    fcntl.flock(lock, fcntl.LOCK_EX)
    try:
        os.makedirs(bdir, exist_ok=True)
        inc = [i.format(repo=repo) for i in INC]
        lib = os.path.join(bdir, "libgdstk_asan.a")
        if not os.path.exists(lib):
            srcs = [p for p in tree_files(repo) if p.endswith(".cpp") and
                    (os.sep + "src" + os.sep in p or p.endswith("clipper.cpp"))]
            objs = []
            jobs = []
            for s in srcs:
                o = os.path.join(bdir, os.path.basename(s)[:-4] + ".o")
                objs.append(o)
                jobs.append([CXX] + COMMON + inc + ["-c", s, "-o", o])
            with ThreadPoolExecutor(16) as ex:
                list(ex.map(run, jobs))
            run(["ar", "rcs", lib + ".tmp"] + objs)
            os.rename(lib + ".tmp", lib)
            for o in objs:
                os.unlink(o)
        dh = driver_hash()
        jobs = []
        # "<target>_gcc": the same driver and library compiled with g++ (the compiler the repository's own build uses):
        # order of evaluation, library and code generation differences become visible to the checks that ask for it
        if any(t.endswith("_gcc") for t in targets):
            glib = os.path.join(bdir, "libgdstk_gcc.a")
            if not os.path.exists(glib):
                srcs = [p for p in tree_files(repo) if p.endswith(".cpp") and
                        (os.sep + "src" + os.sep in p or p.endswith("clipper.cpp"))]
                objs, gjobs = [], []
                for s_ in srcs:
                    o = os.path.join(bdir, "gcc_" + os.path.basename(s_)[:-4] + ".o")
                    objs.append(o)
                    gjobs.append(["g++"] + COMMON + inc + ["-c", s_, "-o", o])
                with ThreadPoolExecutor(16) as ex:
                    list(ex.map(run, gjobs))
                run(["ar", "rcs", glib + ".tmp"] + objs)
                os.rename(glib + ".tmp", glib)
                for o in objs:
                    os.unlink(o)
        for t in targets:
            gcc = t.endswith("_gcc")
            src = os.path.join(VERIF, "driver", (t[:-4] if gcc else t) + ".cpp")
            if not os.path.exists(src):
                continue
            exe = os.path.join(bdir, "%s.%s" % (t, dh))
            link = os.path.join(bdir, t)
            if not os.path.exists(exe):
                # fuzz targets compile the unit under test into their own translation unit (-I<repo>/src) so that libFuzzer's
                # coverage feedback comes from gdstk's code; the rest links from the sanitised library
                extra = ["-fsanitize=fuzzer", "-I" + os.path.join(repo, "src")] if t.startswith("fuzz_") else []
                if gcc:
                    jobs.append((exe, ["g++"] + COMMON + inc + [src, os.path.join(bdir, "libgdstk_gcc.a")] + LIBS + ["-o", exe + ".tmp"]))
                else:
                    jobs.append((exe, [CXX] + COMMON + extra + inc + [src, lib] + LIBS + ["-o", exe + ".tmp"]))
            # stale variants of this target
            for f in os.listdir(bdir):
                if f.startswith(t + ".") and f != os.path.basename(exe) and not f.endswith(".tmp"):
                    try:
                        os.unlink(os.path.join(bdir, f))
                    except OSError:
                        pass
        with ThreadPoolExecutor(8) as ex:
            list(ex.map(run, [j[1] for j in jobs]))
        for exe, _ in jobs:
            os.rename(exe + ".tmp", exe)
        for t in targets:
            exe = os.path.join(bdir, "%s.%s" % (t, dh))
            link = os.path.join(bdir, t)
            if os.path.exists(exe):
                if os.path.islink(link) or os.path.exists(link):
                    os.unlink(link)
                os.symlink(os.path.basename(exe), link)
        # keep the 3 most recently used tree hashes, and any other used within the last 90 minutes
        with open(os.path.join(bdir, ".used"), "w") as fh:
            fh.write("x")
        dirs = [d for d in os.listdir(root) if os.path.isdir(os.path.join(root, d))]
        dirs.sort(key=lambda d: os.path.getmtime(os.path.join(root, d, ".used"))
                  if os.path.exists(os.path.join(root, d, ".used")) else 0, reverse=True)
        # (a tree that was used within the last 90 minutes may belong to a check that is still running)
        import time
        for d in dirs[3:]:
            u = os.path.join(root, d, ".used")
            if not os.path.exists(u) or time.time() - os.path.getmtime(u) > 5400:
                shutil.rmtree(os.path.join(root, d), ignore_errors=True)
    finally:
        fcntl.flock(lock, fcntl.LOCK_UN)
        lock.close()
    return bdir


def main():
    repo = os.environ.get("VERIF_REPO", "/repo")
    targets = ["gdstk_driver"]
    args = sys.argv[1:]
    while args:
        a = args.pop(0)
        if a == "--repo":
            repo = args.pop(0)
        elif a == "--target":
            t = args.pop(0)
            targets = ["gdstk_driver", "gdstk_driver_gcc", "fuzz_oasis_numbers"] if t == "all" else [t]
    print(build(os.path.abspath(repo), targets))


if __name__ == "__main__":
    main()
