// Core of the gdstk verification driver: tokenised command input, JSON output, handle tables,
// canonical dumps.  Only the public gdstk C++ API is used.
#pragma once
#include <inttypes.h>
#include <math.h>
#include <signal.h>
#include <stdarg.h>
#include <stdint.h>
#include <stdio.h>
#include <stdlib.h>
#include <string.h>
#include <unistd.h>

#include <algorithm>
#include <map>
#include <string>
#include <vector>

#include <gdstk/gdstk.hpp>

using namespace gdstk;

// ---------------------------------------------------------------- output
static std::string g_out;

static void o_raw(const char* s) { g_out += s; }
static void o_fmt(const char* fmt, ...) __attribute__((format(printf, 1, 2)));
static void o_fmt(const char* fmt, ...) {
    char buf[512];
    va_list ap;
    va_start(ap, fmt);
    int n = vsnprintf(buf, sizeof buf, fmt, ap);
    va_end(ap);
    if (n >= (int)sizeof buf) {
        std::vector<char> big(n + 1);
        va_start(ap, fmt);
        vsnprintf(big.data(), n + 1, fmt, ap);
        va_end(ap);
        g_out += big.data();
    } else {
        g_out += buf;
    }
}
static void o_d(double v) {
    if (std::isnan(v))
        g_out += "NaN";
    else if (std::isinf(v))
        g_out += v > 0 ? "Infinity" : "-Infinity";
    else
        o_fmt("%.17g", v);
}
static void o_u(uint64_t v) { o_fmt("%" PRIu64, v); }
static void o_i(int64_t v) { o_fmt("%" PRId64, v); }
static void o_b(bool v) { g_out += v ? "true" : "false"; }
static void o_hex(const void* p, uint64_t n) {
    static const char* H = "0123456789abcdef";
    const uint8_t* b = (const uint8_t*)p;
    g_out += '"';
    for (uint64_t i = 0; i < n; i++) {
        g_out += H[b[i] >> 4];
        g_out += H[b[i] & 15];
    }
    g_out += '"';
}
static void o_hexs(const char* s) {
    if (!s)
        g_out += "null";
    else
        o_hex(s, strlen(s));
}
static void o_v(Vec2 v) {
    g_out += '[';
    o_d(v.x);
    g_out += ',';
    o_d(v.y);
    g_out += ']';
}
static void o_pts(const Array<Vec2>& a) {
    g_out += '[';
    for (uint64_t i = 0; i < a.count; i++) {
        if (i) g_out += ',';
        o_v(a[i]);
    }
    g_out += ']';
}
static void o_tag(Tag t) { o_fmt("[%u,%u]", get_layer(t), get_type(t)); }
static void o_nl() { g_out += '\n'; }
static void flush_out() {
    fwrite(g_out.data(), 1, g_out.size(), stdout);
    fflush(stdout);
    g_out.clear();
}

// ---------------------------------------------------------------- input
struct Toks {
    std::vector<char*> t;
    size_t i = 0;
    bool has() const { return i < t.size(); }
    const char* s() {
        if (i >= t.size()) {
            fprintf(stderr, "DRIVER: missing token\n");
            abort();
        }
        return t[i++];
    }
    const char* peek() { return i < t.size() ? t[i] : ""; }
    double d() {
        const char* x = s();
        return strtod(x, NULL);
    }
    uint64_t u() { return strtoull(s(), NULL, 10); }
    int64_t i64() { return strtoll(s(), NULL, 10); }
    bool b() { return u() != 0; }
    Vec2 v() {
        double x = d();
        double y = d();
        return Vec2{x, y};
    }
    // hex-encoded byte string ("-" = empty)
    std::string hex() {
        const char* x = s();
        std::string r;
        if (x[0] == '-' && x[1] == 0) return r;
        size_t n = strlen(x);
        for (size_t k = 0; k + 1 < n; k += 2) {
            auto hv = [](char c) -> int { return c <= '9' ? c - '0' : (c | 32) - 'a' + 10; };
            r += (char)(hv(x[k]) * 16 + hv(x[k + 1]));
        }
        return r;
    }
    Tag tag() {
        uint32_t l = (uint32_t)u();
        uint32_t ty = (uint32_t)u();
        return make_tag(l, ty);
    }
    void pts(Array<Vec2>& a) {
        uint64_t n = u();
        a.ensure_slots(n);
        for (uint64_t k = 0; k < n; k++) a.append(v());
    }
};

// ---------------------------------------------------------------- handles
template <class T>
struct Table {
    std::map<std::string, T*> m;
    const char* kind;
    explicit Table(const char* k) : kind(k) {}
    T* get(const std::string& id) {
        auto it = m.find(id);
        if (it == m.end()) {
            fprintf(stderr, "DRIVER: unknown %s handle %s\n", kind, id.c_str());
            abort();
        }
        return it->second;
    }
    T* make(const std::string& id) {
        T* p = (T*)allocate_clear(sizeof(T));
        m[id] = p;
        return p;
    }
    void put(const std::string& id, T* p) { m[id] = p; }
    bool has(const std::string& id) { return m.count(id) != 0; }
    std::string name_of(const T* p) {
        for (auto& kv : m)
            if (kv.second == p) return kv.first;
        return "?";
    }
};

static Table<Polygon> T_poly("poly");
static Table<FlexPath> T_fp("fp");
static Table<RobustPath> T_rp("rp");
static Table<Label> T_label("label");
static Table<Reference> T_ref("ref");
static Table<Cell> T_cell("cell");
static Table<RawCell> T_raw("raw");
static Table<Library> T_lib("lib");
static Table<Repetition> T_rep("rep");
static Table<Curve> T_curve("curve");

static void reset_tables() {
    // Objects are deliberately leaked (leak detection is off; the driver is recycled by the
    // Python side).  Freeing would risk double frees in *my* code being reported as gdstk's.
    T_poly.m.clear();
    T_fp.m.clear();
    T_rp.m.clear();
    T_label.m.clear();
    T_ref.m.clear();
    T_cell.m.clear();
    T_raw.m.clear();
    T_lib.m.clear();
    T_rep.m.clear();
    T_curve.m.clear();
}

// element addressing: "<kind> <id>" -> repetition / properties
static Repetition* rep_of(const std::string& kind, const std::string& id) {
    if (kind == "poly") return &T_poly.get(id)->repetition;
    if (kind == "fp") return &T_fp.get(id)->repetition;
    if (kind == "rp") return &T_rp.get(id)->repetition;
    if (kind == "label") return &T_label.get(id)->repetition;
    if (kind == "ref") return &T_ref.get(id)->repetition;
    if (kind == "rep") return T_rep.has(id) ? T_rep.get(id) : T_rep.make(id);
    fprintf(stderr, "DRIVER: no repetition on kind %s\n", kind.c_str());
    abort();
}
static Property** props_of(const std::string& kind, const std::string& id) {
    if (kind == "poly") return &T_poly.get(id)->properties;
    if (kind == "fp") return &T_fp.get(id)->properties;
    if (kind == "rp") return &T_rp.get(id)->properties;
    if (kind == "label") return &T_label.get(id)->properties;
    if (kind == "ref") return &T_ref.get(id)->properties;
    if (kind == "cell") return &T_cell.get(id)->properties;
    if (kind == "lib") return &T_lib.get(id)->properties;
    fprintf(stderr, "DRIVER: no properties on kind %s\n", kind.c_str());
    abort();
}

// ---------------------------------------------------------------- dumps
static void dump_rep(const Repetition& r) {
    switch (r.type) {
        case RepetitionType::None:
            o_raw("null");
            break;
        case RepetitionType::Rectangular:
            o_fmt("{\"type\":\"rect\",\"cols\":%" PRIu64 ",\"rows\":%" PRIu64 ",\"spacing\":", r.columns, r.rows);
            o_v(r.spacing);
            o_raw("}");
            break;
        case RepetitionType::Regular:
            o_fmt("{\"type\":\"regular\",\"cols\":%" PRIu64 ",\"rows\":%" PRIu64 ",\"v1\":", r.columns, r.rows);
            o_v(r.v1);
            o_raw(",\"v2\":");
            o_v(r.v2);
            o_raw("}");
            break;
        case RepetitionType::Explicit:
            o_raw("{\"type\":\"explicit\",\"offsets\":");
            o_pts(r.offsets);
            o_raw("}");
            break;
        case RepetitionType::ExplicitX:
        case RepetitionType::ExplicitY:
            o_fmt("{\"type\":\"%s\",\"coords\":[", r.type == RepetitionType::ExplicitX ? "explicitx" : "explicity");
            for (uint64_t i = 0; i < r.coords.count; i++) {
                if (i) o_raw(",");
                o_d(r.coords[i]);
            }
            o_raw("]}");
            break;
        default:
            o_fmt("{\"type\":\"bad%d\"}", (int)r.type);
    }
}

static void dump_props(const Property* p) {
    o_raw("[");
    bool first = true;
    for (; p; p = p->next) {
        if (!first) o_raw(",");
        first = false;
        o_raw("{\"name\":");
        o_hexs(p->name);
        o_raw(",\"values\":[");
        bool f2 = true;
        for (const PropertyValue* v = p->value; v; v = v->next) {
            if (!f2) o_raw(",");
            f2 = false;
            switch (v->type) {
                case PropertyType::UnsignedInteger:
                    o_raw("[\"u\",");
                    o_u(v->unsigned_integer);
                    o_raw("]");
                    break;
                case PropertyType::Integer:
                    o_raw("[\"i\",");
                    o_i(v->integer);
                    o_raw("]");
                    break;
                case PropertyType::Real:
                    o_raw("[\"r\",");
                    o_d(v->real);
                    o_raw("]");
                    break;
                case PropertyType::String:
                    o_raw("[\"s\",");
                    o_hex(v->bytes, v->count);
                    o_raw("]");
                    break;
            }
        }
        o_raw("]}");
    }
    o_raw("]");
}

static void dump_poly(const Polygon& p) {
    o_raw("{\"tag\":");
    o_tag(p.tag);
    o_raw(",\"pts\":");
    o_pts(p.point_array);
    o_raw(",\"rep\":");
    dump_rep(p.repetition);
    o_raw(",\"props\":");
    dump_props(p.properties);
    o_raw("}");
}

static void dump_polys(const Array<Polygon*>& a) {
    o_raw("[");
    for (uint64_t i = 0; i < a.count; i++) {
        if (i) o_raw(",");
        dump_poly(*a[i]);
    }
    o_raw("]");
}

static void dump_label(const Label& l) {
    o_raw("{\"tag\":");
    o_tag(l.tag);
    o_raw(",\"text\":");
    o_hexs(l.text);
    o_raw(",\"origin\":");
    o_v(l.origin);
    o_fmt(",\"anchor\":%d,\"rotation\":", (int)l.anchor);
    o_d(l.rotation);
    o_raw(",\"mag\":");
    o_d(l.magnification);
    o_raw(",\"xrefl\":");
    o_b(l.x_reflection);
    o_raw(",\"rep\":");
    dump_rep(l.repetition);
    o_raw(",\"props\":");
    dump_props(l.properties);
    o_raw("}");
}

static void dump_ref(const Reference& r) {
    o_raw("{\"type\":");
    switch (r.type) {
        case ReferenceType::Cell:
            o_raw("\"cell\",\"target\":");
            o_hexs(r.cell ? r.cell->name : NULL);
            o_fmt(",\"ptr\":\"%s\"", T_cell.name_of(r.cell).c_str());
            break;
        case ReferenceType::RawCell:
            o_raw("\"raw\",\"target\":");
            o_hexs(r.rawcell ? r.rawcell->name : NULL);
            o_fmt(",\"ptr\":\"%s\"", T_raw.name_of(r.rawcell).c_str());
            break;
        case ReferenceType::Name:
            o_raw("\"name\",\"target\":");
            o_hexs(r.name);
            break;
    }
    o_raw(",\"origin\":");
    o_v(r.origin);
    o_raw(",\"rotation\":");
    o_d(r.rotation);
    o_raw(",\"mag\":");
    o_d(r.magnification);
    o_raw(",\"xrefl\":");
    o_b(r.x_reflection);
    o_raw(",\"rep\":");
    dump_rep(r.repetition);
    o_raw(",\"props\":");
    dump_props(r.properties);
    o_raw("}");
}

static void dump_fp(const FlexPath& f) {
    o_raw("{\"spine\":");
    o_pts(f.spine.point_array);
    o_raw(",\"tolerance\":");
    o_d(f.spine.tolerance);
    o_raw(",\"last_ctrl\":");
    o_v(f.spine.last_ctrl);
    o_raw(",\"simple\":");
    o_b(f.simple_path);
    o_raw(",\"scale_width\":");
    o_b(f.scale_width);
    o_raw(",\"elements\":[");
    for (uint64_t i = 0; i < f.num_elements; i++) {
        const FlexPathElement& e = f.elements[i];
        if (i) o_raw(",");
        o_raw("{\"tag\":");
        o_tag(e.tag);
        o_raw(",\"hwo\":");
        o_pts(e.half_width_and_offset);
        o_fmt(",\"join\":%d,\"end\":%d,\"ext\":", (int)e.join_type, (int)e.end_type);
        o_v(e.end_extensions);
        o_fmt(",\"bend\":%d,\"bend_radius\":", (int)e.bend_type);
        o_d(e.bend_radius);
        o_raw("}");
    }
    o_raw("],\"rep\":");
    dump_rep(f.repetition);
    o_raw(",\"props\":");
    dump_props(f.properties);
    o_raw("}");
}

static void dump_interp(const Interpolation& it) {
    switch (it.type) {
        case InterpolationType::Constant:
            o_raw("[\"c\",");
            o_d(it.value);
            o_raw("]");
            break;
        case InterpolationType::Linear:
        case InterpolationType::Smooth:
            o_fmt("[\"%s\",", it.type == InterpolationType::Linear ? "l" : "s");
            o_d(it.initial_value);
            o_raw(",");
            o_d(it.final_value);
            o_raw("]");
            break;
        case InterpolationType::Parametric:
            o_raw("[\"p\"]");
            break;
    }
}

static void dump_rp(const RobustPath& r) {
    o_raw("{\"end_point\":");
    o_v(r.end_point);
    o_fmt(",\"num_subpaths\":%" PRIu64 ",\"subpaths\":[", r.subpath_array.count);
    for (uint64_t i = 0; i < r.subpath_array.count; i++) {
        const SubPath& s = r.subpath_array[i];
        if (i) o_raw(",");
        switch (s.type) {
            case SubPathType::Segment:
                o_raw("{\"t\":\"seg\",\"begin\":");
                o_v(s.begin);
                o_raw(",\"end\":");
                o_v(s.end);
                o_raw("}");
                break;
            case SubPathType::Arc:
                o_raw("{\"t\":\"arc\",\"center\":");
                o_v(s.center);
                o_raw(",\"rx\":");
                o_d(s.radius_x);
                o_raw(",\"ry\":");
                o_d(s.radius_y);
                o_raw(",\"ai\":");
                o_d(s.angle_i);
                o_raw(",\"af\":");
                o_d(s.angle_f);
                o_raw(",\"cos\":");
                o_d(s.cos_rot);
                o_raw(",\"sin\":");
                o_d(s.sin_rot);
                o_raw("}");
                break;
            case SubPathType::Bezier2:
            case SubPathType::Bezier3:
                o_fmt("{\"t\":\"%s\",\"p\":[", s.type == SubPathType::Bezier2 ? "bez2" : "bez3");
                o_v(s.p0);
                o_raw(",");
                o_v(s.p1);
                o_raw(",");
                o_v(s.p2);
                if (s.type == SubPathType::Bezier3) {
                    o_raw(",");
                    o_v(s.p3);
                }
                o_raw("]}");
                break;
            case SubPathType::Bezier:
                o_raw("{\"t\":\"bez\",\"p\":");
                o_pts(s.ctrl);
                o_raw("}");
                break;
            case SubPathType::Parametric:
                o_raw("{\"t\":\"par\",\"ref\":");
                o_v(s.reference);
                o_raw("}");
                break;
        }
    }
    o_raw("],\"tolerance\":");
    o_d(r.tolerance);
    o_fmt(",\"max_evals\":%" PRIu64 ",\"width_scale\":", r.max_evals);
    o_d(r.width_scale);
    o_raw(",\"offset_scale\":");
    o_d(r.offset_scale);
    o_raw(",\"trafo\":[");
    for (int k = 0; k < 6; k++) {
        if (k) o_raw(",");
        o_d(r.trafo[k]);
    }
    o_raw("],\"simple\":");
    o_b(r.simple_path);
    o_raw(",\"scale_width\":");
    o_b(r.scale_width);
    o_raw(",\"elements\":[");
    for (uint64_t i = 0; i < r.num_elements; i++) {
        const RobustPathElement& e = r.elements[i];
        if (i) o_raw(",");
        o_raw("{\"tag\":");
        o_tag(e.tag);
        o_fmt(",\"end\":%d,\"ext\":", (int)e.end_type);
        o_v(e.end_extensions);
        o_raw(",\"end_width\":");
        o_d(e.end_width);
        o_raw(",\"end_offset\":");
        o_d(e.end_offset);
        o_raw(",\"widths\":[");
        for (uint64_t k = 0; k < e.width_array.count; k++) {
            if (k) o_raw(",");
            dump_interp(e.width_array[k]);
        }
        o_raw("],\"offsets\":[");
        for (uint64_t k = 0; k < e.offset_array.count; k++) {
            if (k) o_raw(",");
            dump_interp(e.offset_array[k]);
        }
        o_raw("]}");
    }
    o_raw("],\"rep\":");
    dump_rep(r.repetition);
    o_raw(",\"props\":");
    dump_props(r.properties);
    o_raw("}");
}

static void dump_cell(const Cell& c) {
    o_raw("{\"name\":");
    o_hexs(c.name);
    o_fmt(",\"ptr\":\"%s\"", T_cell.name_of(&c).c_str());
    o_raw(",\"polygons\":");
    dump_polys(c.polygon_array);
    o_raw(",\"flexpaths\":[");
    for (uint64_t i = 0; i < c.flexpath_array.count; i++) {
        if (i) o_raw(",");
        dump_fp(*c.flexpath_array[i]);
    }
    o_raw("],\"robustpaths\":[");
    for (uint64_t i = 0; i < c.robustpath_array.count; i++) {
        if (i) o_raw(",");
        dump_rp(*c.robustpath_array[i]);
    }
    o_raw("],\"labels\":[");
    for (uint64_t i = 0; i < c.label_array.count; i++) {
        if (i) o_raw(",");
        dump_label(*c.label_array[i]);
    }
    o_raw("],\"refs\":[");
    for (uint64_t i = 0; i < c.reference_array.count; i++) {
        if (i) o_raw(",");
        dump_ref(*c.reference_array[i]);
    }
    o_raw("],\"props\":");
    dump_props(c.properties);
    o_raw("}");
}

static void dump_raw(const RawCell& r) {
    o_raw("{\"name\":");
    o_hexs(r.name);
    o_fmt(",\"ptr\":\"%s\",\"size\":%" PRIu64 ",\"deps\":[", T_raw.name_of(&r).c_str(), r.size);
    for (uint64_t i = 0; i < r.dependencies.count; i++) {
        if (i) o_raw(",");
        o_hexs(r.dependencies[i]->name);
    }
    o_raw("]}");
}

static void dump_lib(const Library& l) {
    o_raw("{\"name\":");
    o_hexs(l.name);
    o_raw(",\"unit\":");
    o_d(l.unit);
    o_raw(",\"precision\":");
    o_d(l.precision);
    o_raw(",\"cells\":[");
    for (uint64_t i = 0; i < l.cell_array.count; i++) {
        if (i) o_raw(",");
        dump_cell(*l.cell_array[i]);
    }
    o_raw("],\"rawcells\":[");
    for (uint64_t i = 0; i < l.rawcell_array.count; i++) {
        if (i) o_raw(",");
        dump_raw(*l.rawcell_array[i]);
    }
    o_raw("],\"props\":");
    dump_props(l.properties);
    o_raw("}");
}

// Register every cell of a freshly loaded library in the cell table under "<prefix>.<index>"
static void register_lib_cells(Library* lib, const std::string& prefix) {
    for (uint64_t i = 0; i < lib->cell_array.count; i++) {
        T_cell.put(prefix + "." + std::to_string(i), lib->cell_array[i]);
    }
    // raw cells keep the handles they got from read_rawcells (copies share them)
}
